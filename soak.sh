#!/bin/sh
# soak: every quick check under several VERIF_SEED values; prints only non-zero exits and violations
cd "$(dirname "$0")"
for s in ${SEEDS:-2 3 4 5 6 7 8 9}; do
  for p in C01 C02 C03 C04 C05 C06 C07 C08 C09 C10 C11 C12 C13 C14 C15 C16; do
    VERIF_SEED=$s ./vcheck $p ${TIER:-quick} > /tmp/soak_$p_$s.log 2>&1
    rc=$?
    echo "seed=$s $p exit=$rc $(tail -1 /tmp/soak_$p_$s.log | cut -c1-160)"
    if [ $rc -ne 0 ]; then grep -A2 "VIOLATION\|HARNESS" /tmp/soak_$p_$s.log | cut -c1-500; fi
  done
done
