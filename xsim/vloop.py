"""Virtual-time asyncio event loop for deterministic simulation.

* time is an integer number of virtual microseconds; `time()` returns us/1e6.
* `call_soon` is FIFO and never permuted (asyncio guarantees it and the repo
  relies on it).  Timers that are due at the same virtual instant are moved to
  the ready queue in an order decided by the run's PRNG (`tie_rng`), because a
  real loop gives no guarantee for equal deadlines.
* the loop is driven from outside: `run_until(t)`, `settle()`, `advance(dt)`.
  When nothing is ready the clock jumps to the next timer.
* every task is a pure-python task with a deterministic hash and name, so sets
  of tasks (TaskManager) iterate reproducibly in a fresh interpreter.
* budgets: a cap on handles run per run, and an `aborted` flag set by the
  recorder (SimAbort) which stops the driver.
"""
from __future__ import annotations

import asyncio
import heapq
import sys
import threading
from asyncio import events, tasks


class SimAbort(BaseException):
    """Raised by harness hooks to unwind repo code when a budget is exceeded."""


class BudgetExceeded(Exception):
    """The loop ran more handles than allowed in one run (harness-level)."""


class SimTask(tasks._PyTask):  # type: ignore[misc]
    _serial = 0

    def __init__(self, coro, *, loop=None, name=None, context=None, **kw):
        serial = loop._next_task_serial()
        self._sim_serial = serial
        self._sim_origin = loop._origin_hint
        super().__init__(coro, loop=loop, name=name or f"t{serial}", context=context, **kw)

    def __hash__(self):
        return self._sim_serial * 2654435761 % (1 << 61)

    def __eq__(self, other):
        return self is other


class VLoop(asyncio.BaseEventLoop):
    def __init__(self, tie_rng=None, late=None, max_handles=400_000):
        super().__init__()
        self._now_us = 0
        self._timers = []  # heap of (when_us, tie, seq, handle)
        self._tseq = 0
        self._tie_rng = tie_rng
        self._late = late  # callable(rng)->extra us, or None
        self._task_serial = 0
        self._origin_hint = None
        self.all_sim_tasks = []
        self.handles_run = 0
        self.max_handles = max_handles
        self.aborted = None  # reason string when aborted
        self.iterations = 0
        self.on_iteration = None  # callback(loop) after each iteration
        self.timers_fired = 0
        self.same_instant_ties = 0
        self.exc_contexts = []
        self.set_exception_handler(self._record_exc)

    # -- plumbing ---------------------------------------------------------
    def _record_exc(self, loop, context):
        exc = context.get("exception")
        self.exc_contexts.append((context.get("message", ""), type(exc).__name__ if exc else None))

    def _next_task_serial(self):
        self._task_serial += 1
        return self._task_serial

    def time(self):
        return self._now_us / 1e6

    @property
    def now_us(self):
        return self._now_us

    def create_task(self, coro, *, name=None, context=None):
        self._check_closed()
        t = SimTask(coro, loop=self, name=name, context=context)
        self.all_sim_tasks.append(t)
        return t

    def _process_events(self, event_list):  # pragma: no cover
        pass

    def _write_to_self(self):
        pass

    def _timer_handle_cancelled(self, handle):
        pass

    def call_later(self, delay, callback, *args, context=None):
        if delay is None:
            raise TypeError("delay must not be None")
        us = int(round(float(delay) * 1e6))
        if us < 0:
            us = 0
        return self._call_at_us(self._now_us + us, callback, args, context)

    def call_at(self, when, callback, *args, context=None):
        if when is None:
            raise TypeError("when cannot be None")
        us = int(round(float(when) * 1e6))
        return self._call_at_us(us, callback, args, context)

    def _call_at_us(self, when_us, callback, args, context):
        self._check_closed()
        if self._late is not None and self._tie_rng is not None:
            when_us += self._late(self._tie_rng)
        h = asyncio.TimerHandle(when_us / 1e6, callback, args, self, context)
        h._scheduled = True
        self._tseq += 1
        tie = self._tie_rng.random() if self._tie_rng is not None else 0.0
        heapq.heappush(self._timers, (when_us, tie, self._tseq, h))
        return h

    # -- driving ----------------------------------------------------------
    class _Running:
        def __init__(self, loop):
            self.loop = loop

        def __enter__(self):
            lp = self.loop
            lp._check_closed()
            self.prev = events._get_running_loop()
            lp._thread_id = threading.get_ident()
            events._set_running_loop(lp)
            return lp

        def __exit__(self, *a):
            self.loop._thread_id = None
            events._set_running_loop(self.prev)
            return False

    def running(self):
        return VLoop._Running(self)

    def _drop_cancelled_head(self):
        while self._timers and self._timers[0][3]._cancelled:
            heapq.heappop(self._timers)

    def next_timer_us(self):
        self._drop_cancelled_head()
        return self._timers[0][0] if self._timers else None

    def pending_timers(self):
        return [(w, h) for (w, _t, _s, h) in self._timers if not h._cancelled]

    def _move_due(self):
        n = 0
        while self._timers and self._timers[0][0] <= self._now_us:
            w, _tie, _s, h = heapq.heappop(self._timers)
            h._scheduled = False
            if h._cancelled:
                continue
            self._ready.append(h)
            n += 1
        if n > 1:
            self.same_instant_ties += 1
        self.timers_fired += n

    def _iterate(self):
        """One loop iteration at the current instant: due timers + ready batch."""
        self._move_due()
        ntodo = len(self._ready)
        for _ in range(ntodo):
            h = self._ready.popleft()
            if h._cancelled:
                continue
            self.handles_run += 1
            if self.handles_run > self.max_handles:
                self.aborted = self.aborted or "max_handles"
                return
            h._run()
            if self.aborted:
                return
        self.iterations += 1
        if self.on_iteration is not None:
            self.on_iteration(self)

    def has_work_now(self):
        self._drop_cancelled_head()
        return bool(self._ready) or bool(self._timers and self._timers[0][0] <= self._now_us)

    def settle(self):
        """Run until nothing is ready and no timer is due at the current instant."""
        with self.running():
            while self.has_work_now() and not self.aborted:
                self._iterate()

    def run_until(self, t_us, inclusive=True):
        """Advance virtual time to t_us, running everything due on the way.

        inclusive=False stops before running timers due exactly at t_us (they
        stay pending, the clock reads t_us).
        """
        with self.running():
            while not self.aborted:
                if self._ready:
                    self._iterate()
                    continue
                nxt = self.next_timer_us()
                if nxt is None or nxt > t_us or (nxt == t_us and not inclusive):
                    break
                if nxt > self._now_us:
                    self._now_us = nxt
                self._iterate()
            if self._now_us < t_us:
                self._now_us = t_us
            if inclusive:
                while self.has_work_now() and not self.aborted:
                    self._iterate()

    def advance(self, dt_us):
        self.run_until(self._now_us + dt_us)

    def run_task(self, coro, name=None, cap_us=None):
        """Create a task and run the loop until it is done (clock may jump)."""
        with self.running():
            t = self.create_task(coro, name=name)
        with self.running():
            while not t.done() and not self.aborted:
                if self._ready:
                    self._iterate()
                    continue
                nxt = self.next_timer_us()
                if nxt is None:
                    break
                if cap_us is not None and nxt > cap_us:
                    break
                if nxt > self._now_us:
                    self._now_us = nxt
                self._iterate()
        return t

    def busy_advance(self, dt_us):
        """A synchronous action 'takes' dt_us of virtual time without yielding."""
        self._now_us += dt_us

    def live_tasks(self):
        return [t for t in self.all_sim_tasks if not t.done()]

    def shutdown(self):
        """Cancel everything still alive and close (end of run)."""
        try:
            with self.running():
                for _ in range(50):
                    live = self.live_tasks()
                    if not live:
                        break
                    for t in live:
                        t.cancel()
                    n = 0
                    while self._ready and n < 10000:
                        h = self._ready.popleft()
                        n += 1
                        if not h._cancelled:
                            try:
                                h._run()
                            except BaseException:
                                pass
                for t in self.all_sim_tasks:
                    if t.done() and not t.cancelled():
                        try:
                            t.exception()
                        except BaseException:
                            pass
        finally:
            self._timers.clear()
            self._ready.clear()
            self.all_sim_tasks = []
            try:
                self.close()
            except Exception:
                pass
