"""Oracles: functions (scenario, result) -> [Violation].

They state only what the property states; every deliberate leniency is
commented where it is taken and listed in DESIGN.md section 4.
"""
from __future__ import annotations

from .model import Model
from .tracewalk import K, SEQ, T, W, Violation, Walk

MS = 1000


# ---------------------------------------------------------------------------
# helpers
def after_delay_us(sc, key):
    """Resolve an `after` key of the scenario to microseconds (as resolved at entry)."""
    try:
        return int(key) * MS
    except (TypeError, ValueError):
        pass
    d = (sc.get("logic") or {}).get("delays", {}).get(key)
    if isinstance(d, dict) and "$fn" in d:
        d = d["$fn"].get("v")
    if isinstance(d, (int, float)):
        return int(d * MS)
    return None


def const_true_guard(sc, g):
    if g is None:
        return True
    if isinstance(g, str):
        spec = (sc.get("logic") or {}).get("guards", {}).get(g)
        return bool(spec and spec.get("k") == "const" and spec.get("v") is True)
    return False


def has_log(w, needle):
    return any(needle in (r[7] or "") for r in w.logs)


def slow_total(sc):
    tot = 0
    for a in ((sc.get("logic") or {}).get("actions") or {}).values():
        for e in a.get("eff", []):
            if e[0] in ("slow", "sleep"):
                tot = max(tot, e[1])
    return tot


# ===========================================================================
# C08
# ===========================================================================

def _recv_before(w, seq, etype):
    best = None
    for r in w.recv:
        if r[SEQ] > seq:
            break
        if r[5] == etype:
            best = r
    return best


def oracle_c08(sc, res):
    w = Walk(sc, res)
    m = w.model
    vios = []
    fired = {}  # (state, activation idx, delay key) -> count
    stale_seen = {}
    stop_ret = None
    for r in res.trace:
        if r[K] == "op-ret" and r[5] == "stop":
            stop_ret = r
            break
    late_max = ((sc.get("sched") or {}).get("late") or {}).get("max", 0)
    for r in w.trans:
        t = m.trans.get(r[5])
        if t is None or t.kind != "after":
            continue
        S = t.source.id
        d_us = after_delay_us(sc, t.delay)
        rv = _recv_before(w, r[SEQ], t.event)
        fire_seq = rv[SEQ] if rv is not None else r[SEQ]
        fire_t = rv[T] if rv is not None else r[T]
        a = w.activation_at(S, fire_seq)
        if a is None:
            vios.append(Violation("C08", "after-fired-inactive", {"engine": sc["engine"]},
                                  f"after transition {t.tid} fired while {S} has no current activation at seq {fire_seq}"))
            continue
        key = (S, a.idx, t.delay)
        prev = [p for p in w.activations.get(S, []) if p.idx < a.idx]
        # a previous activation whose deadline had passed and which never consumed its expiry:
        # its notification may still be queued (root cause of the known stale-expiry finding)
        stale_possible = d_us is not None and any(
            p.t_in + d_us <= fire_t and fired.get((S, p.idx, t.delay), 0) == 0 for p in prev)
        early = d_us is not None and fire_t - a.t_in < d_us
        if early:
            vios.append(Violation(
                "C08", "after-fired-before-due",
                {"reentered": bool(prev), "previous_activation_deadline_passed": any(p.t_in + d_us <= fire_t for p in prev)},
                f"{t.tid}: {S} entered at {a.t_in}us, after {t.delay} fired at {fire_t}us (only {fire_t - a.t_in}us active, needs {d_us}us)",
                detail={"state": S, "tid": t.tid, "t_in": a.t_in, "fire_t": fire_t, "engine": sc["engine"]}))
        elif stop_ret is not None and fire_seq > stop_ret[SEQ] and d_us is not None and stop_ret[T] < a.t_in + d_us:
            # stop() had returned strictly before the delay elapsed (C14 judges deliveries after a later stop)
            vios.append(Violation("C08", "after-fired-after-stop", {"engine": sc["engine"], "preempted": bool(res.meta.get("preempts_done"))},
                                  f"after transition {t.tid} of {S} taken although stop() returned at {stop_ret[T]}us, before the deadline {a.t_in + d_us}us"))
        fired[key] = fired.get(key, 0) + 1
        stale_seen[key] = stale_seen.get(key, False) or stale_possible
        if fired[key] == 2:
            ncand = len(t.source.after.get(t.delay, []))
            vios.append(Violation("C08", "after-fired-twice",
                                  {"internal": t.internal, "candidates_gt1": ncand > 1, "stale_expiry_possible": stale_seen[key]},
                                  f"{S} activation {a.idx}: delay {t.delay} fired more than once"))
        # guard must have passed when it elapsed
        if isinstance(t.guard, str):
            vals = [g[7] for g in res.trace if g[K] == "gcall" and fire_seq <= g[SEQ] <= r[SEQ] and g[4] == t.guard]
            if vals and not any(v is True for v in vals):
                vios.append(Violation("C08", "after-guard-not-true", {}, f"{t.tid} fired though guard {t.guard} evaluated {vals}"))
    # liveness once faults stop: at the final quiescent observation
    fin = w.final_obs("final")
    if fin is not None and not w.aborted() and fin["status"] == "running":
        end_t = [r for r in w.obs if r[4] == "final"][-1][T]
        slack = 150 * MS + late_max + slow_total(sc) * 4
        for sid in fin["cfg"]:
            n = m.node(sid)
            if n is None or not n.after:
                continue
            acts = w.activations.get(sid, [])
            if not acts or acts[-1].t_out is not None:
                continue
            a = acts[-1]
            for dkey, cands in n.after.items():
                d_us = after_delay_us(sc, dkey)
                if d_us is None:
                    continue
                if not any(const_true_guard(sc, c.guard) for c in cands):
                    continue
                if a.t_in + d_us + slack >= end_t:
                    continue
                if fired.get((sid, a.idx, dkey), 0) == 0:
                    vios.append(Violation(
                        "C08", "after-never-fired",
                        {"engine": sc["engine"], "discard_logged": has_log(w, "Discarding"), "preempted": bool(res.meta.get("preempts_done"))},
                        f"{sid} active since {a.t_in}us, delay {dkey} unguarded, nothing fired by {end_t}us",
                        detail={"state": sid}))
    return vios


def nontrivial_c08(sc, res):
    ntr = 0
    aft = 0
    for r in res.trace:
        if r[K] == "trans":
            ntr += 1
            if r[7] and str(r[7]).startswith("after."):
                aft += 1
    return ntr >= 3 and aft >= 1


def stats_c08(sc, res):
    s = {"after_fired": 0, "after_state_left_early": 0, "send_at_deadline_instant": 0, "reentry_of_timed_state": 0,
         "preempts_done": int(res.meta.get("preempts_done") or 0), "timer_ties": int(res.meta.get("ties") or 0),
         "stop_ops": 0}
    w = Walk(sc, res)
    m = w.model
    for r in w.trans:
        t = m.trans.get(r[5])
        if t is not None and t.kind == "after":
            s["after_fired"] += 1
    send_times = set(r[T] for r in res.trace if r[K] == "op-call" and r[5] == "send")
    for sid, acts in w.activations.items():
        n = m.node(sid)
        if n is None or not n.after:
            continue
        if len(acts) > 1:
            s["reentry_of_timed_state"] += len(acts) - 1
        for a in acts:
            for dkey in n.after:
                d = after_delay_us(sc, dkey)
                if d is None:
                    continue
                if a.t_out is not None and a.t_out < a.t_in + d:
                    s["after_state_left_early"] += 1
                if a.t_in + d in send_times:
                    s["send_at_deadline_instant"] += 1
    s["stop_ops"] = sum(1 for r in res.trace if r[K] == "op-call" and r[5] == "stop")
    return s
