"""Oracles: functions (scenario, result) -> [Violation].

They state only what the property states; every deliberate leniency is
commented where it is taken and listed in DESIGN.md section 4.
"""
from __future__ import annotations

from .model import Model
from .tracewalk import K, SEQ, T, W, Violation, Walk

MS = 1000


# ---------------------------------------------------------------------------
# helpers
def after_delay_us(sc, key, ctx=None):
    """Resolve an `after` key of the scenario to microseconds (as resolved at entry; `ctx` = context at that entry)."""
    try:
        return int(key) * MS
    except (TypeError, ValueError):
        pass
    d = (sc.get("logic") or {}).get("delays", {}).get(key)
    if isinstance(d, dict) and "$fn" in d:
        f = d["$fn"]
        if f.get("k") == "ctx":
            if ctx is None:
                return None   # a computed delay cannot be judged without the context at entry
            d = ctx.get(f["key"], 0) * f.get("mul", 1) + f.get("add", 0)
        else:
            d = f.get("v")
    if isinstance(d, (int, float)):
        return int(d * MS)
    return None


def ctx_at_entries(sc, res, root):
    """(state id, seq of its entry marker) -> context just before that entry (for delays computed from the context)."""
    out = {}
    ctx = dict(sc["machine"].get("context") or {})
    for r in res.trace:
        k = r[K]
        if k == "act" and r[4] == root and str(r[5]).startswith("en."):
            out[(r[5][3:], r[SEQ])] = dict(ctx)
        if k in ("act", "ucall") and (k == "ucall" or r[4] == root):
            try:
                apply_effects(ctx, sc, r)
            except Exception:
                pass
    return out


def _entry_ctx(entry_ctx, sid, a):
    if a is None:
        return None
    # the entry marker closest to (at or just after) the activation's recorded start
    best = None
    for (s_, q), c in entry_ctx.items():
        if s_ == sid and q >= (a.seq_in or 0) - 2 and (best is None or q < best[0]):
            best = (q, c)
    return best[1] if best else None


def const_true_guard(sc, g):
    if g is None:
        return True
    if isinstance(g, str):
        spec = (sc.get("logic") or {}).get("guards", {}).get(g)
        return bool(spec and spec.get("k") == "const" and spec.get("v") is True)
    return False


def has_log(w, needle):
    return any(needle in (r[7] or "") for r in w.logs)


def slow_total(sc):
    tot = 0
    for a in ((sc.get("logic") or {}).get("actions") or {}).values():
        for e in a.get("eff", []):
            if e[0] in ("slow", "sleep"):
                tot = max(tot, e[1])
    return tot


# ===========================================================================
# C08
# ===========================================================================

def _recv_before(w, seq, etype):
    best = None
    for r in w.recv:
        if r[SEQ] > seq:
            break
        if r[5] == etype:
            best = r
    return best


def oracle_c08(sc, res):
    w = Walk(sc, res)
    m = w.model
    vios = []
    fired = {}  # (state, activation idx, delay key) -> count
    stale_seen = {}
    stop_ret = None
    for r in res.trace:
        if r[K] == "op-ret" and r[5] == "stop":
            stop_ret = r
            break
    late_max = ((sc.get("sched") or {}).get("late") or {}).get("max", 0)
    entry_ctx = ctx_at_entries(sc, res, m.root.id)
    for r in w.trans:
        t = m.trans.get(r[5])
        if t is None or t.kind != "after":
            continue
        S = t.source.id
        rv = _recv_before(w, r[SEQ], t.event)
        fire_seq = rv[SEQ] if rv is not None else r[SEQ]
        fire_t = rv[T] if rv is not None else r[T]
        a = w.activation_at(S, fire_seq)
        d_us = after_delay_us(sc, t.delay, _entry_ctx(entry_ctx, S, a))
        if a is None:
            vios.append(Violation("C08", "after-fired-inactive", {"engine": sc["engine"]},
                                  f"after transition {t.tid} fired while {S} has no current activation at seq {fire_seq}"))
            continue
        key = (S, a.idx, t.delay)
        prev = [p for p in w.activations.get(S, []) if p.idx < a.idx]
        # a previous activation whose deadline had passed and which never consumed its expiry:
        # its notification may still be queued (root cause of the known stale-expiry finding)
        stale_possible = d_us is not None and any(
            p.t_in + d_us <= fire_t and fired.get((S, p.idx, t.delay), 0) == 0 for p in prev)
        early = d_us is not None and fire_t - a.t_in < d_us
        if early:
            vios.append(Violation(
                "C08", "after-fired-before-due",
                {"reentered": bool(prev), "previous_activation_deadline_passed": any(p.t_in + d_us <= fire_t for p in prev)},
                f"{t.tid}: {S} entered at {a.t_in}us, after {t.delay} fired at {fire_t}us (only {fire_t - a.t_in}us active, needs {d_us}us)",
                detail={"state": S, "tid": t.tid, "t_in": a.t_in, "fire_t": fire_t, "engine": sc["engine"]}))
        elif stop_ret is not None and fire_seq > stop_ret[SEQ] and d_us is not None and stop_ret[T] < a.t_in + d_us:
            # stop() had returned strictly before the delay elapsed (C14 judges deliveries after a later stop)
            vios.append(Violation("C08", "after-fired-after-stop", {"engine": sc["engine"], "preempted": bool(res.meta.get("preempts_done"))},
                                  f"after transition {t.tid} of {S} taken although stop() returned at {stop_ret[T]}us, before the deadline {a.t_in + d_us}us"))
        fired[key] = fired.get(key, 0) + 1
        stale_seen[key] = stale_seen.get(key, False) or stale_possible
        rollback_between = any(l[SEQ] > a.seq_in and "rolling back" in (l[7] or "") for l in w.logs)
        if fired[key] == 2 and not rollback_between:
            # (a rolled-back transition re-arms the timers of the states it had begun to exit - C07 -
            #  so a second expiry in the same activation is specified behaviour then)
            ncand = len(t.source.after.get(t.delay, []))
            vios.append(Violation("C08", "after-fired-twice",
                                  {"internal": t.internal, "candidates_gt1": ncand > 1, "stale_expiry_possible": stale_seen[key],
                                   "engine": sc["engine"], "preempted": bool(res.meta.get("preempts_done"))},
                                  f"{S} activation {a.idx}: delay {t.delay} fired more than once"))
        # guard must have passed when it elapsed
        if isinstance(t.guard, str):
            vals = [g[7] for g in res.trace if g[K] == "gcall" and fire_seq <= g[SEQ] <= r[SEQ] and g[4] == t.guard]
            if vals and not any(v is True for v in vals):
                vios.append(Violation("C08", "after-guard-not-true", {}, f"{t.tid} fired though guard {t.guard} evaluated {vals}"))
    # liveness once faults stop: at the final quiescent observation
    fin = w.final_obs("final")
    if fin is not None and not w.aborted() and fin["status"] == "running":
        end_t = [r for r in w.obs if r[4] == "final"][-1][T]
        slack = 150 * MS + late_max + slow_total(sc) * 4
        for sid in fin["cfg"]:
            n = m.node(sid)
            if n is None or not n.after:
                continue
            acts = w.activations.get(sid, [])
            if not acts or acts[-1].t_out is not None:
                continue
            a = acts[-1]
            for dkey, cands in n.after.items():
                d_us = after_delay_us(sc, dkey, _entry_ctx(entry_ctx, sid, a))
                if d_us is None:
                    continue
                if not any(const_true_guard(sc, c.guard) for c in cands):
                    continue
                if a.t_in + d_us + slack >= end_t:
                    continue
                if fired.get((sid, a.idx, dkey), 0) == 0:
                    vios.append(Violation(
                        "C08", "after-never-fired",
                        {"engine": sc["engine"], "discard_logged": has_log(w, "Discarding"), "preempted": bool(res.meta.get("preempts_done"))},
                        f"{sid} active since {a.t_in}us, delay {dkey} unguarded, nothing fired by {end_t}us",
                        detail={"state": sid}))
    return vios


def nontrivial_c08(sc, res):
    ntr = 0
    aft = 0
    for r in res.trace:
        if r[K] == "trans":
            ntr += 1
            if r[7] and str(r[7]).startswith("after."):
                aft += 1
    return ntr >= 3 and aft >= 1


def stats_c08(sc, res):
    s = {"after_fired": 0, "after_state_left_early": 0, "send_at_deadline_instant": 0, "reentry_of_timed_state": 0,
         "preempts_done": int(res.meta.get("preempts_done") or 0), "timer_ties": int(res.meta.get("ties") or 0),
         "stop_ops": 0}
    w = Walk(sc, res)
    m = w.model
    for r in w.trans:
        t = m.trans.get(r[5])
        if t is not None and t.kind == "after":
            s["after_fired"] += 1
    send_times = set(r[T] for r in res.trace if r[K] == "op-call" and r[5] == "send")
    for sid, acts in w.activations.items():
        n = m.node(sid)
        if n is None or not n.after:
            continue
        if len(acts) > 1:
            s["reentry_of_timed_state"] += len(acts) - 1
        for a in acts:
            for dkey in n.after:
                d = after_delay_us(sc, dkey)
                if d is None:
                    continue
                if a.t_out is not None and a.t_out < a.t_in + d:
                    s["after_state_left_early"] += 1
                if a.t_in + d in send_times:
                    s["send_at_deadline_instant"] += 1
    s["stop_ops"] = sum(1 for r in res.trace if r[K] == "op-call" and r[5] == "stop")
    return s


# ===========================================================================
# C01 - legal configurations at every observation point
# ===========================================================================

def _last_trans_facts(w, m, seq, where=""):
    """Structural facts about the transition in progress / just completed at seq (for signatures).

    The sync engine notifies subscribers before on_transition, the async engine after;
    both the last transition recorded at-or-before seq and the first one after it are looked at.
    """
    last = None
    nxt = None
    for r in w.trans:
        if r[SEQ] <= seq:
            last = r
        elif nxt is None:
            nxt = r
            break
    facts = {"target_root": False, "target_history_parent": None, "source_inside_history_parent": False}
    cands = [last, nxt] if where.startswith("subscriber") else [last]
    for rec in cands:
        if rec is None:
            continue
        t = m.trans.get(rec[5])
        if t is not None and t.target is not None:
            if t.target is m.root:
                facts["target_root"] = True
            if t.target.kind == "history":
                facts["target_history_parent"] = t.target.parent.kind
                facts["source_inside_history_parent"] = t.source.is_descendant_of(t.target.parent, strict=False)
    return facts


def oracle_c01(sc, res):
    m = Model(sc["machine"])
    vios = []
    if sc["engine"] == "pure":
        for r in res.trace:
            if r[K] == "pure":
                probs = m.legal_problems(r[6])
                if probs:
                    vios.append(Violation("C01", "illegal-configuration", {"where": "pure", "kind": probs[0][0]},
                                          f"PureSnapshot.configuration {sorted(r[6])}: {probs}"))
                    break
        return vios
    w = Walk(sc, res, model=m)
    start_ret = w.ops_ret.get(0)
    if start_ret is None or (isinstance(start_ret[6], tuple) and start_ret[6][0] == "exc"):
        return vios  # the library did not agree to start this machine
    start_seq = start_ret[SEQ]
    root = m.root.id

    def report(where, cfg, seq, probs):
        facts = _last_trans_facts(w, m, seq, where)
        sig = {"where": where, "kind": probs[0][0], "during_start": seq < start_seq, "engine": sc["engine"]}
        sig.update(facts)
        vios.append(Violation("C01", "illegal-configuration", sig,
                              f"{where} at seq {seq}: configuration {list(cfg)} -> {probs[:3]}"))

    for r in res.trace:
        k = r[K]
        if vios:
            break
        if k == "obs" and r[5] == root:
            if r[SEQ] < start_seq:
                continue
            probs = m.legal_problems(r[6]["cfg"])
            if probs:
                report("observation:" + ("quiescent" if sc["engine"] == "async" else "return"), r[6]["cfg"], r[SEQ], probs)
        elif k == "trans" and r[4] == root:
            for which, cfg in (("to_states", r[9]), ("live", r[10])):
                probs = m.legal_problems(cfg)
                if probs:
                    report("on_transition:" + which, cfg, r[SEQ], probs)
                    break
        elif k == "sub" and r[4] == root:
            probs = m.legal_problems(r[5])
            if probs:
                report("subscriber" + (":error-status" if r[6] == "error" else ""), r[5], r[SEQ], probs)
        elif k == "op-ret" and r[5] == "snapshot" and isinstance(r[6], tuple) and r[6][0] == "snapshot":
            import json as _json
            try:
                cfg = _json.loads(r[6][1]).get("configuration") or ()
            except Exception:
                continue
            probs = m.legal_problems(cfg)
            if probs:
                report("snapshot", cfg, r[SEQ], probs)
    return vios


# ===========================================================================
# C03 - exit -> transition -> entry; exactly-once accounting; frame
# ===========================================================================

def _segments(w):
    """Yield ('act', record) for every marker action and ('trans', trigger, [acts], record)
    per executed transition, in trace order, for one interpreter."""
    cur = []
    trig = None
    for r in w.trace:
        k = r[K]
        if k == "recv" and r[4] == w.iid:
            trig = r
            cur = []
        elif k == "act" and r[4] == w.iid:
            cur.append(r)
            yield ("act", r)
        elif k == "trans" and r[4] == w.iid:
            yield ("trans", trig, cur, r)
            cur = []


def oracle_c03(sc, res):
    w = Walk(sc, res)
    m = w.model
    vios = []
    start_ret = w.ops_ret.get(0)
    if start_ret is None or (isinstance(start_ret[6], tuple) and start_ret[6][0] == "exc"):
        return vios
    if w.aborted():
        return vios
    tally = set()
    for item in _segments(w):
        if item[0] == "act":
            a = item[1]
            nm = a[5]
            if nm.startswith("en."):
                sid = nm[3:]
                if sid in tally:
                    vios.append(Violation("C03", "entered-while-active", {"engine": sc["engine"]},
                                          f"{sid} entry actions ran while it was already active (seq {a[SEQ]})"))
                    return vios
                tally.add(sid)
            elif nm.startswith("ex."):
                sid = nm[3:]
                if sid not in tally:
                    vios.append(Violation("C03", "exited-while-inactive", {"engine": sc["engine"]},
                                          f"{sid} exit actions ran while it was not active (seq {a[SEQ]})"))
                    return vios
                tally.discard(sid)
            continue
        _k, trig, acts, tr = item
        t = m.trans.get(tr[5])
        markers = [a for a in acts if a[5].startswith(("en.", "ex.", "tr."))]
        is_init = tr[7] == "___xstate_statemachine_init___" or (trig is None)
        live = set(tr[10])
        if tally != live:
            # (entries - exits) must equal the change in activity for every state
            diff = sorted(tally ^ live)
            vios.append(Violation("C03", "accounting-mismatch", {"engine": sc["engine"], "init": is_init},
                                  f"after transition {tr[5]} entry/exit tally {sorted(tally)} != configuration {sorted(live)} (diff {diff})"))
            return vios
        if is_init or t is None:
            continue
        # ---- order: exits, then transition actions, then entries
        phase = 0
        order = {"ex.": 0, "tr.": 1, "en.": 2}
        for a in markers:
            ph = order[a[5][:3]]
            if ph < phase:
                vios.append(Violation("C03", "action-order", {"engine": sc["engine"], "late_kind": a[5][:2]},
                                      f"transition {t.tid}: {a[5]} ran after a later-phase action; sequence {[x[5] for x in markers]}"))
                return vios
            phase = max(phase, ph)
        exits = [m.node(a[5][3:]) for a in markers if a[5].startswith("ex.")]
        entries = [m.node(a[5][3:]) for a in markers if a[5].startswith("en.")]
        for i, x in enumerate(exits):
            for y in exits[i + 1:]:
                if x is not None and y is not None and y.is_descendant_of(x):
                    vios.append(Violation("C03", "exit-order", {"engine": sc["engine"]},
                                          f"transition {t.tid}: {x.id} exited before its descendant {y.id}"))
                    return vios
        for i, x in enumerate(entries):
            for y in entries[i + 1:]:
                if x is not None and y is not None and x.is_descendant_of(y):
                    vios.append(Violation("C03", "entry-order", {"engine": sc["engine"]},
                                          f"transition {t.tid}: {x.id} entered before its ancestor {y.id}"))
                    return vios
        # ---- internal transitions run actions only
        if t.internal and (exits or entries):
            vios.append(Violation("C03", "internal-transition-moved", {"engine": sc["engine"]},
                                  f"internal transition {t.tid} produced entry/exit actions {[x[5] for x in markers]}"))
            return vios
        # ---- the triggering event reaches every entry/exit/transition action
        if trig is not None:
            want = (trig[5], trig[6])
            # An eventless transition is caused either by the eventless pass ("" event) or, when it
            # is selected while an event is being processed, by that event: both are accepted.
            ok_events = {want, ("", None)} if tr[7] == "" else {want}
            for a in markers:
                got = (a[6], a[7])
                if got not in ok_events:
                    node = m.node(a[5][3:]) if not a[5].startswith("tr.") else None
                    default_descent = bool(node is not None and a[5].startswith("en.") and t.target is not None
                                           and not (t.target is node or t.target.is_descendant_of(node)))
                    vios.append(Violation("C03", "wrong-trigger-event",
                                          {"engine": sc["engine"], "role": a[5][:2], "default_descent": default_descent,
                                           "synthetic": str(got[0]).startswith(("entry.", "exit."))},
                                          f"transition {t.tid} caused by {want}: {a[5]} received {got}"))
                    return vios
        # ---- frame: nothing outside subtree(LCA(source, target)) is touched
        if t.target is not None and not t.internal:
            tgt = t.target
            L = m.lca(t.source, tgt)
            for x in exits + entries:
                if x is not None and not x.is_descendant_of(L, strict=False):
                    vios.append(Violation("C03", "frame-violated", {"engine": sc["engine"], "lca_kind": L.kind},
                                          f"transition {t.tid} {t.source.id}->{tgt.id}: {x.id} is outside subtree({L.id}) but was entered/exited"))
                    return vios
    return vios


# ===========================================================================
# shared: context reconstruction + reference guard values
# ===========================================================================

def apply_effects(ctx, sc, r):
    """Update the reconstructed context for one trace record."""
    k = r[K]
    if k == "act":
        spec = ((sc.get("logic") or {}).get("actions") or {}).get(r[5])
        if spec:
            for e in spec.get("eff", []):
                if e[0] == "inc":
                    ctx[e[1]] = ctx.get(e[1], 0) + e[2]
                elif e[0] == "set":
                    ctx[e[1]] = e[2]
                elif e[0] == "pop":
                    ctx.pop(e[1], None)
    elif k == "ucall" and r[4] == "assign" and len(r) > 8 and isinstance(r[8], dict):
        ctx.update(r[8])


def guard_atom_value(sc, name, params, ctx):
    spec = ((sc.get("logic") or {}).get("guards") or {}).get(name)
    if spec is None:
        return "builtin" if name == "stateIn" else "missing"
    k = spec.get("k")
    if k == "const":
        return bool(spec["v"])
    if k == "ctx_lt":
        return ctx.get(spec["key"], 0) < spec["v"]
    if k == "ctx_ge":
        return ctx.get(spec["key"], 0) >= spec["v"]
    if k == "ctx_eq":
        return ctx.get(spec["key"], 0) == spec["v"]
    if k == "ctx_odd":
        return ctx.get(spec["key"], 0) % 2 == 1
    if k == "raise":
        return "raise"
    if k == "params_eq":
        return params == spec["v"]
    if k == "param_truth":
        return bool((params or {}).get(spec.get("key", "v")))
    return "missing"


def ref_guard(sc, gcfg, ctx, cfg_ids):
    """Reference truth value of a raw guard config; raises GuardMissing when a missing atom is consulted."""
    from .model import eval_guard

    def atom(name, params):
        p = params
        if isinstance(p, dict) and "$fn" in p:
            fs = p["$fn"]
            p = fs.get("v") if fs.get("k") == "const" else None
        return guard_atom_value(sc, name, p, ctx)

    def state_in(target):
        t = target[1:] if target.startswith("#") else target
        return any(i == t or i.endswith("." + t) for i in cfg_ids)
    return eval_guard(gcfg, atom, state_in)


# ===========================================================================
# C02 - selection
# ===========================================================================

def _event_kind(etype):
    if etype.startswith("after."):
        return "after", None
    if etype.startswith("done.invoke."):
        return "done", etype[len("done.invoke."):]
    if etype.startswith("error.platform."):
        return "done", etype[len("error.platform."):]
    return "plain", None


def _obs_core(o):
    return (o["cfg"], o["ctx"], o["history"], o["output"], o["status"], o["census"])


def oracle_c02(sc, res):
    from .model import GuardMissing
    w = Walk(sc, res)
    m = w.model
    vios = []
    start_ret = w.ops_ret.get(0)
    if start_ret is None or (isinstance(start_ret[6], tuple) and start_ret[6][0] == "exc") or w.aborted():
        return vios
    root = m.root.id
    ctx = dict(sc["machine"].get("context") or {})
    cfg = set()
    # split the trace into steps: one per recv (of the root) ; also handle can ops
    steps = []  # (recv record, cfg at recv, ctx at recv, [records until next boundary])
    cur = None
    last_obs = None
    can_windows = []  # (op-call rec, op-ret rec, cfg, ctx, obs_before)
    open_can = None
    send_ops = {}  # op index -> (obs_before, obs_after)
    pending_send = None
    for r in res.trace:
        k = r[K]
        if k == "act" and r[4] == root:
            nm = r[5]
            if nm.startswith("en."):
                cfg.add(nm[3:])
            elif nm.startswith("ex."):
                cfg.discard(nm[3:])
        if k in ("act", "ucall"):
            if k == "ucall" or r[4] == root:
                apply_effects(ctx, sc, r)
        if k == "recv" and r[4] == root:
            cur = [r, set(cfg), dict(ctx), []]
            steps.append(cur)
        elif cur is not None and k in ("act", "trans", "gcall", "ucall") and (k in ("gcall", "ucall") or r[4] == root):
            cur[3].append(r)
        if k == "op-call":
            cur = None if r[5] in ("can",) else cur
            if r[5] == "can":
                open_can = [r, None, set(cfg), dict(ctx), last_obs, []]
            elif r[5] == "send":
                pending_send = [r[4], last_obs, None]
        elif k == "op-ret" and r[5] == "can" and open_can is not None:
            open_can[1] = r
            can_windows.append(open_can)
            open_can = None
        elif open_can is not None and k in ("act", "trans", "ucall", "recv") and not (k == "ucall" and r[4] == "fn"):
            open_can[5].append(r)
        elif k == "obs" and r[5] == root:
            last_obs = r[6]
            if pending_send is not None and r[4] == f"after-op{pending_send[0]}":
                pending_send[2] = r[6]
                send_ops[pending_send[0]] = (pending_send[1], pending_send[2])
                pending_send = None
            if can_windows and can_windows[-1][1] is not None and len(can_windows[-1]) == 6 and r[4] == f"after-op{can_windows[-1][0][4]}":
                can_windows[-1].append(r[6])

    def gv_factory(cfg_at, ctx_at):
        def gv(t):
            try:
                return ref_guard(sc, t.guard, ctx_at, cfg_at)
            except GuardMissing:
                raise
        return gv

    for rv, cfg_at, ctx_at, recs in steps:
        etype = rv[5]
        ek, src = _event_kind(etype)
        try:
            gv = gv_factory(cfg_at, ctx_at)
            noms = m.nominate(cfg_at, etype, gv, ek, src)
            always_enabled = bool(m.nominate(cfg_at, "", gv)) if etype != "" else False
        except GuardMissing:
            continue  # missing guards are C06's business
        nom_ids = [t.tid for t in noms]
        fired = []
        exited_before = {}
        for r in recs:
            if r[K] == "act" and r[5].startswith("ex."):
                exited_before.setdefault(r[5][3:], r[SEQ])
            if r[K] == "trans":
                t = m.trans.get(r[5])
                if t is not None and _fires_for(t, etype) and etype != "":
                    fired.append((t, r))
        fired_ids = [t.tid for t, _r in fired]
        sig_base = {"engine": sc["engine"], "event_kind": ek if ek != "plain" else ("raised" if rv[6] is None and etype.startswith("R") else "plain"),
                    "always_enabled_at_recv": always_enabled}
        for t, r in fired:
            if t.tid not in nom_ids:
                vios.append(Violation("C02", "fired-not-nominated", dict(sig_base, source_active=t.source.id in cfg_at),
                                      f"event {etype} in {sorted(cfg_at)} ctx={ctx_at}: {t.tid} ({t.source.id}) fired; nominated {nom_ids}"))
                return vios
        if len(set(fired_ids)) != len(fired_ids):
            vios.append(Violation("C02", "fired-twice", sig_base, f"event {etype}: transitions fired {fired_ids}"))
            return vios
        for t in noms:
            if t.tid in fired_ids:
                continue
            first_fire_seq = None
            # lenient: skipped iff its source was exited earlier in this step by another winner
            if t.source.id in exited_before:
                continue
            if ek != "plain" or etype.startswith("done.state."):
                continue  # a notification of an exited activation is discarded (C08/C09/C10 judge those)
            vios.append(Violation("C02", "nominated-not-fired", sig_base,
                                  f"event {etype} in {sorted(cfg_at)} ctx={ctx_at}: nominated {nom_ids}, fired {fired_ids}; {t.tid} missing though its source {t.source.id} was not exited"))
            return vios
        if not noms and not always_enabled and etype != "":
            # (the evaluation of a guard's computed params is part of evaluating the guard, not an effect)
            acts = [r for r in recs if r[K] in ("act", "trans", "ucall") and not (r[K] == "trans" and r[7] == "___xstate_statemachine_init___")
                    and not (r[K] == "ucall" and r[4] == "fn")]
            if acts:
                vios.append(Violation("C02", "unhandled-event-not-noop", sig_base,
                                      f"event {etype} has no nominee in {sorted(cfg_at)} but {[(a[K], a[5]) for a in acts[:4]]} ran"))
                return vios
    # frame condition for unhandled external events: observation before == after
    for rv, cfg_at, ctx_at, recs in steps:
        tag = rv[6]
        if tag is None or tag not in send_ops:
            continue
        try:
            gv = gv_factory(cfg_at, ctx_at)
            noms = m.nominate(cfg_at, rv[5], gv, "plain", None)
            always_enabled = bool(m.nominate(cfg_at, "", gv))
        except GuardMissing:
            continue
        if noms or always_enabled:
            continue
        before, after = send_ops[tag]
        if before is not None and after is not None and _obs_core(before) != _obs_core(after):
            vios.append(Violation("C02", "unhandled-event-changed-state", {"engine": sc["engine"]},
                                  f"unhandled {rv[5]}: observation before {_obs_core(before)} != after {_obs_core(after)}"))
            return vios
    # can()
    for cw in can_windows:
        call, ret, cfg_at, ctx_at, before, inside = cw[:6]
        after = cw[6] if len(cw) > 6 else None
        etype = call[6] if isinstance(call[6], str) else (call[6] or {}).get("type")
        if ret is None or not isinstance(ret[6], tuple) or ret[6][0] != "can":
            continue
        try:
            gv = gv_factory(cfg_at, ctx_at)
            noms = m.nominate(cfg_at, etype, gv, "plain", None)
            always_enabled = bool(m.nominate(cfg_at, "", gv))
        except GuardMissing:
            continue
        expected = bool(noms)
        if ret[6][1] != expected and not always_enabled:
            vios.append(Violation("C02", "can-disagrees", {"engine": sc["engine"], "can": ret[6][1]},
                                  f"can({etype}) = {ret[6][1]} but reference nomination in {sorted(cfg_at)} ctx={ctx_at} is {[t.tid for t in noms]}"))
            return vios
        if inside:
            vios.append(Violation("C02", "can-has-effects", {"engine": sc["engine"]},
                                  f"can({etype}) produced records {[(r[K],) + tuple(r[4:6]) for r in inside[:4]]}"))
            return vios
        if before is not None and after is not None and _obs_core(before) != _obs_core(after):
            vios.append(Violation("C02", "can-changed-state", {"engine": sc["engine"]},
                                  f"can({etype}) changed the observation: {_obs_core(before)} -> {_obs_core(after)}"))
            return vios
    return vios


# ===========================================================================
# C04 - run-to-completion, lossless, ordered
# ===========================================================================

_SYNTH = ("___xstate_statemachine_init___", "___xstate_statemachine_exit___")


def oracle_c04(sc, res):
    w = Walk(sc, res)
    vios = []
    if w.aborted():
        return vios
    root = w.iid
    start_ret = w.ops_ret.get(0)
    if start_ret is None or (isinstance(start_ret[6], tuple) and start_ret[6][0] == "exc"):
        return vios
    start_ret_seq = start_ret[SEQ]
    preempted = bool(res.meta.get("preempts_done"))
    discard = has_log(w, "Discarding")
    # ---- accepted tags per client, in send order
    accepted = {}  # client -> [tag]
    ops = sc.get("ops") or []
    for i, op in enumerate(ops):
        if op.get("op") not in ("send", "send_events"):
            continue
        call, ret = w.ops_call.get(i), w.ops_ret.get(i)
        if call is None or ret is None or ret[6] != "ok" or call[8] != "running":
            continue
        c = op.get("client", 0)
        if op["op"] == "send":
            if "tag" in op:
                accepted.setdefault(c, []).append(op["tag"])
        else:
            for e in op["events"]:
                if "tag" in e:
                    accepted.setdefault(c, []).append(e["tag"])
    # sends made by an observer hook while start() runs (status already "running"): accepted like any other, and they must
    # wait for the initial entry instead of being processed inside the send() call, on top of the half-made start
    open_hook = None
    for r in res.trace:
        k = r[K]
        if k == "hook-send" and r[4] == root:
            open_hook = r
        elif k == "hook-sent" and r[4] == root:
            if open_hook is not None and open_hook[6] == "running" and r[6] == "ok":
                accepted.setdefault("hook", []).extend(open_hook[5])
            open_hook = None
        elif k == "recv" and r[4] == root and open_hook is not None and r[W] == open_hook[W] and r[6] is not None:
            vios.append(Violation("C04", "processed-reentrantly-inside-send", {"engine": sc["engine"], "during_start": True},
                                  f"event {r[5]} (tag {r[6]}) was processed inside the send() call an observer hook made while start() "
                                  f"was still running (seq {r[SEQ]}), not after the initial entry had completed"))
            break
    recv_tags = [r[6] for r in w.recv if r[6] is not None]
    counts = {}
    for t in recv_tags:
        counts[t] = counts.get(t, 0) + 1
    fin = w.final_obs("final")
    status_ok = fin is not None and fin["status"] == "running"
    during_start_tags = set()
    # ---- "each event is processed to a stable configuration - including all eventless (always) follow-ups - before the
    # next one starts": when a named event is taken from the queue no always-transition is enabled any more (unless a
    # maxIterations bound cut an always-loop, which leaves one enabled by design)
    if not has_log(w, "xceeded") and not has_log(w, "rolling back"):
        try:
            m_ = w.model if getattr(w, "model", None) is not None else Model(sc["machine"])
            cfg_, ctx_ = set(), dict(sc["machine"].get("context") or {})
            seen_start_ret = False
            for r in res.trace:
                k = r[K]
                if k == "act" and r[4] == root:
                    nm = r[5]
                    if nm.startswith("en."):
                        cfg_.add(nm[3:])
                    elif nm.startswith("ex."):
                        cfg_.discard(nm[3:])
                if k in ("act", "ucall") and (k == "ucall" or r[4] == root):
                    apply_effects(ctx_, sc, r)
                if k == "op-ret" and r[5] == "start":
                    seen_start_ret = True
                if k == "recv" and r[4] == root and r[5] != "" and seen_start_ret:
                    cfg_at, ctx_at = set(cfg_), dict(ctx_)
                    try:
                        en = m_.nominate(cfg_at, "", lambda t: ref_guard(sc, t.guard, ctx_at, cfg_at))
                    except Exception:
                        en = []
                    if en:
                        vios.append(Violation("C04", "event-processed-in-unsettled-configuration", {"engine": sc["engine"], "preempted": preempted},
                                              f"event {r[5]} (tag {r[6]}) was taken from the queue in {sorted(cfg_at)} ctx={ctx_at} while the "
                                              f"always-transition {en[0].tid} was still enabled"))
                        break
        except Exception:
            pass
    # ---- nothing accepted is still waiting when the whole system is idle (no thread / task runnable at that instant):
    # an event left in the queue until somebody else happens to send is lost for all practical purposes
    qs = [r for r in res.trace if r[K] == "quiescent"]
    if qs and status_ok:
        recv_seq = {}
        for r in w.recv:
            if r[6] is not None and r[6] not in recv_seq:
                recv_seq[r[6]] = r[SEQ]
        stranded = None
        for q in qs:
            for i, op in enumerate(ops):
                if op.get("op") not in ("send", "send_events"):
                    continue
                call, ret = w.ops_call.get(i), w.ops_ret.get(i)
                if call is None or ret is None or ret[6] != "ok" or call[8] != "running" or ret[SEQ] > q[SEQ]:
                    continue
                tags_ = [op["tag"]] if op["op"] == "send" and "tag" in op else [e["tag"] for e in op.get("events", []) if "tag" in e]
                for t in tags_:
                    if recv_seq.get(t, 10 ** 18) > q[SEQ] and not (has_log(w, "chained self-raised") or discard):
                        stranded = (t, q[T])
                        break
                if stranded:
                    break
            if stranded:
                break
        if stranded:
            vios.append(Violation("C04", "event-stranded-at-quiescence", {"engine": sc["engine"], "preempted": preempted},
                                  f"accepted event tag {stranded[0]} was still unprocessed at {stranded[1]}us although no thread / task was "
                                  f"runnable (it was only processed later, or never)"))
    for i, op in enumerate(ops):
        call = w.ops_call.get(i)
        if call is not None and call[SEQ] < start_ret_seq and op.get("op") in ("send", "send_events"):
            if op["op"] == "send" and "tag" in op:
                during_start_tags.add(op["tag"])
    for c, tags in accepted.items():
        for t in tags:
            n = counts.get(t, 0)
            if n == 0 and status_ok:
                vios.append(Violation("C04", "event-lost",
                                      {"engine": sc["engine"], "discard_logged": discard, "preempted": preempted,
                                       "chain_break_logged": has_log(w, "chained self-raised"),
                                       "sent_during_start": t in during_start_tags},
                                      f"accepted event tag {t} (client {c}) was never processed"))
                break
            if n > 1:
                vios.append(Violation("C04", "event-duplicated", {"engine": sc["engine"], "preempted": preempted},
                                      f"event tag {t} processed {n} times"))
                break
        # per-producer order
        seen = [t for t in recv_tags if t in set(tags)]
        want = [t for t in tags if counts.get(t, 0) >= 1]
        dedup = []
        for t in seen:
            if t not in dedup:
                dedup.append(t)
        if dedup != want:
            vios.append(Violation("C04", "producer-order", {"engine": sc["engine"], "preempted": preempted},
                                  f"client {c} sent {want} but they were processed in order {dedup}"))
    # ---- run-to-completion: no interleaving, no re-entrancy
    cur = None  # current recv record
    done_ids = set()
    for r in res.trace:
        k = r[K]
        if k == "recv" and r[4] == root:
            if cur is not None:
                done_ids.add((cur[5], cur[6]))
            cur = r
            continue
        if cur is None or k not in ("act", "trans") or r[4] != root:
            continue
        if k == "trans" and r[7] in _SYNTH:
            continue
        if r[W] != cur[W]:
            vios.append(Violation("C04", "concurrent-processing",
                                  {"engine": sc["engine"], "preempted": preempted, "during_start": r[SEQ] < start_ret_seq},
                                  f"while {cur[W]} processes {cur[5]}#{cur[6]}, worker {r[W]} executed {k} {r[5]} (seq {r[SEQ]})"))
            break
        if k == "act":
            ident = (r[6], r[7])
            if ident == (cur[5], cur[6]) or ident[0] == "" or ident[0] in _SYNTH or str(ident[0]).startswith(("entry.", "exit.")):
                continue
            vios.append(Violation("C04", "interleaved-or-reentrant",
                                  {"engine": sc["engine"], "preempted": preempted, "during_start": r[SEQ] < start_ret_seq,
                                   "earlier_event": ident in done_ids},
                                  f"action {r[5]} ran for event {ident} while the event being processed is {(cur[5], cur[6])} (seq {r[SEQ]})"))
            break
    return vios


def stats_c04(sc, res):
    s = {"clients": len(set(o.get("client", 0) for o in sc.get("ops") or [])), "recv": 0, "raised_recv": 0,
         "preempts_done": int(res.meta.get("preempts_done") or 0), "burst_over_bound": 0, "sends_during_start": 0}
    start_ret = None
    for r in res.trace:
        if r[K] == "recv":
            s["recv"] += 1
            if r[6] is None:
                s["raised_recv"] += 1
        if r[K] == "op-ret" and r[5] == "start":
            start_ret = r[SEQ]
        if r[K] == "op-call" and r[5] in ("send", "send_events") and start_ret is None:
            s["sends_during_start"] += 1
    mi = int(sc["machine"].get("maxIterations", 1000))
    for o in sc.get("ops") or []:
        if o.get("op") == "send_events" and len(o["events"]) > mi:
            s["burst_over_bound"] += 1
    return s


# ===========================================================================
# C09 - invoked services
# ===========================================================================

def _svc_identity(data):
    """(service name, activation index) carried by a completion event, or None."""
    if isinstance(data, dict) and "svc" in data:
        return data["svc"], data["act"]
    if isinstance(data, tuple) and len(data) == 3 and data[0] == "exc" and str(data[2]).startswith("svc:"):
        _p, name, n = str(data[2]).split(":")
        return name, int(n)
    return None


def oracle_c09(sc, res):
    w = Walk(sc, res)
    m = w.model
    vios = []
    if w.aborted():
        return vios
    root = w.iid
    start_ret = w.ops_ret.get(0)
    if start_ret is None or (isinstance(start_ret[6], tuple) and start_ret[6][0] == "exc"):
        return vios
    svc_specs = (sc.get("logic") or {}).get("services") or {}
    # invoke declarations by service name (generator: one service per invoking state)
    by_src = {}
    for n in m.by_id.values():
        for inv in n.invoke:
            by_src[inv["src"]] = (n, inv)
    calls = {}  # (svc, n) -> dict(seq, t, state, act_idx)
    ends = {}   # (svc, n) -> (seq, outcome)
    per_activation = {}  # (state, idx, svc) -> [n]
    for r in res.trace:
        k = r[K]
        if k == "svc-call" and r[4] == root:
            name, n = r[5], r[6]
            if name not in by_src:
                continue
            node, inv = by_src[name]
            a = w.last_activation_before(node.id, r[SEQ])
            calls[(name, n)] = {"seq": r[SEQ], "t": r[T], "state": node.id, "act": a.idx if a else None, "a": a}
            if a is None:
                vios.append(Violation("C09", "service-started-without-entry", {"engine": sc["engine"]},
                                      f"service {name} called (activation #{n}) but {node.id} was never entered"))
                continue
            per_activation.setdefault((node.id, a.idx, name), []).append(n)
            want = inv.get("input") or {}
            if r[7] != want:
                vios.append(Violation("C09", "service-input", {"engine": sc["engine"]},
                                      f"service {name} received input {r[7]!r}, declared {want!r}"))
            if a.seq_out is not None and a.seq_out < r[SEQ]:
                vios.append(Violation("C09", "service-started-after-exit", {"engine": sc["engine"]},
                                      f"service {name} #{n} started at seq {r[SEQ]} after {node.id} was exited (seq {a.seq_out})"))
        elif k == "svc-end":
            ends[(r[4], r[5])] = (r[SEQ], r[6], r[T])
    for (sid, idx, name), ns in per_activation.items():
        if len(ns) > 1:
            vios.append(Violation("C09", "service-started-twice", {"engine": sc["engine"]},
                                  f"{sid} activation {idx}: service {name} started {len(ns)} times"))
    # every activation that survived a quiescent point must have started its services
    quiescent_seqs = [r[SEQ] for r in w.obs]
    for name, (node, inv) in by_src.items():
        spec = svc_specs.get(name) or {}
        if spec.get("k") not in ("sync", "coro"):
            continue
        for a in w.activations.get(node.id, []):
            survived = any(a.seq_in < q and (a.seq_out is None or a.seq_out > q) for q in quiescent_seqs)
            if survived and not per_activation.get((node.id, a.idx, name)):
                if w.stop_call_seq is not None and a.seq_in > w.stop_call_seq:
                    continue
                vios.append(Violation("C09", "service-not-started", {"engine": sc["engine"]},
                                      f"{node.id} activation {a.idx} was active across a quiescent point but {name} was never called"))
    # completion events
    _svc_all0 = (sc.get("logic") or {}).get("services") or {}
    machine_invoke_ids = set()

    def _walk_mi(c):
        iv = c.get("invoke")
        for one in (iv if isinstance(iv, list) else [iv] if iv else []):
            if isinstance(one, dict) and (_svc_all0.get(one.get("src")) or {}).get("k") == "machine":
                machine_invoke_ids.add(one.get("id"))
        for ch in (c.get("states") or {}).values():
            _walk_mi(ch)
    _walk_mi(sc["machine"])
    handled = {}  # (state, act idx, invoke id) -> count of handler transitions
    stale_keys = set()
    for r in w.trans:
        t = m.trans.get(r[5])
        if t is None or t.kind not in ("invoke.done", "invoke.error"):
            continue
        rv = _recv_before(w, r[SEQ], t.event)
        if rv is None:
            continue
        ident = _svc_identity(rv[7])
        if t.invoke_id in machine_invoke_ids:
            ident = None   # data of an invoked MACHINE's completion is the child's context / failure, not one of our unique values
        S = t.source.id
        a = w.activation_at(S, rv[SEQ])
        if a is None:
            vios.append(Violation("C09", "completion-handled-while-inactive", {"engine": sc["engine"]},
                                  f"{t.tid} fired for {t.event} while {S} has no current activation"))
            continue
        key = (S, a.idx, t.invoke_id)
        handled[key] = handled.get(key, 0) + 1
        c0 = calls.get(ident) if ident is not None else None
        if c0 is not None and (c0["act"] != a.idx or c0["state"] != S):
            stale_keys.add(key)
        if handled[key] == 2:
            vios.append(Violation("C09", "completion-handled-twice", {"engine": sc["engine"], "stale_result_involved": key in stale_keys},
                                  f"{S} activation {a.idx}: two completion transitions for invoke {t.invoke_id}"))
        if ident is not None:
            c = calls.get(ident)
            if c is None:
                vios.append(Violation("C09", "completion-without-start", {"engine": sc["engine"]},
                                      f"{t.event} carries {ident} but no such service call was recorded"))
            elif c["act"] != a.idx or c["state"] != S:
                vios.append(Violation("C09", "stale-service-result",
                                      {"reentered": a.idx > 0, "engine": sc["engine"]},
                                      f"{t.tid}: result of {ident[0]} started in activation {c['act']} of {c['state']} drove the handler of activation {a.idx} of {S}",
                                      detail={"state": S}))
            e = ends.get(ident)
            if e is not None:
                if (t.kind == "invoke.done") != (e[1] == "return"):
                    vios.append(Violation("C09", "done-error-mismatch", {"engine": sc["engine"]},
                                          f"service {ident} ended with {e[1]} but {t.kind} handler {t.tid} ran"))
    # a service that ended while its activation was still current must be handled exactly once (if a handler is declared
    # unguarded) provided the activation is still current when the run quiesces
    fin = w.final_obs("final")
    for ident, (eseq, outcome, et) in ends.items():
        c = calls.get(ident)
        if c is None or c["a"] is None or outcome == "cancelled":
            continue
        node, inv = by_src[ident[0]]
        a = c["a"]
        handlers = inv["on_done"] if outcome == "return" else inv["on_error"]
        if a.seq_out is not None:
            continue  # exited later (or before): discarding is legitimate
        if fin is None or fin["status"] != "running":
            if outcome == "raise" and not inv["on_error"] and fin is not None and fin["status"] != "stopped":
                if fin["status"] != "error" or not fin["error"]:
                    vios.append(Violation("C09", "unhandled-failure-not-error-status", {"engine": sc["engine"], "status": fin["status"]},
                                          f"service {ident} failed with no onError but status is {fin['status']} error={fin['error']!r}"))
            continue
        if outcome == "raise" and not inv["on_error"]:
            if has_log(w, "chained self-raised"):
                continue  # the failure notification was part of a chain the maxIterations bound cut (logged): C13's business
            vios.append(Violation("C09", "unhandled-failure-not-error-status", {"engine": sc["engine"], "status": fin["status"]},
                                  f"service {ident} failed with no onError but status is {fin['status']}"))
            continue
        if handlers and any(const_true_guard(sc, h.guard) for h in handlers):
            if has_log(w, "Discarding") or has_log(w, "chained self-raised"):
                continue  # a self-feeding chain was cut at maxIterations (C13): the cut event may be this completion
            if handled.get((node.id, a.idx, inv["id"]), 0) == 0:
                vios.append(Violation("C09", "completion-never-handled",
                                      {"engine": sc["engine"], "preempted": bool(res.meta.get("preempts_done")),
                                       "discard_logged": has_log(w, "Discarding") or has_log(w, "chained self-raised")},
                                      f"service {ident} ended ({outcome}) while {node.id} activation {a.idx} was current and stayed current, but no handler ran"))
    # zombies: after an activation is exited (and at the next quiescent point) its service has ended;
    # after stop() nothing is alive
    for ident, c in calls.items():
        spec = svc_specs.get(ident[0]) or {}
        if spec.get("k") != "coro" or c["a"] is None:
            continue
        a = c["a"]
        if a.seq_out is None:
            continue
        q = [x for x in quiescent_seqs if x > a.seq_out]
        if not q:
            continue
        e = ends.get(ident)
        if e is None or e[0] > q[0]:
            vios.append(Violation("C09", "service-survived-exit", {"engine": sc["engine"]},
                                  f"service {ident} of {c['state']} activation {a.idx} still running at the quiescent point after its exit"))
    # invoked child MACHINES: at every quiescent observation a running child interpreter of the root belongs to an invoke
    # whose state is active ("once the state is exited ... no task, thread or child interpreter started for it remains alive")
    svc_all = (sc.get("logic") or {}).get("services") or {}
    minv = []

    def _walk_inv(c, sid):
        iv = c.get("invoke")
        for one in (iv if isinstance(iv, list) else [iv] if iv else []):
            if isinstance(one, dict) and (svc_all.get(one.get("src")) or {}).get("k") == "machine":
                minv.append((sid, one.get("id"), one.get("src")))
        for k_, ch in (c.get("states") or {}).items():
            _walk_inv(ch, f"{sid}.{k_}")
    _walk_inv(sc["machine"], sc["machine"]["id"])
    if minv:
        root_id = sc["machine"]["id"]
        # completion of an invoked machine: a child that ended in the error status is reported through error.platform.<id>
        # (never through done.invoke.<id>), one that reached its final state through done.invoke.<id>; a failure is reported
        child_failed = {}     # child interpreter id -> seq of its on_error hook
        for r in res.trace:
            if r[K] == "error-hook" and r[4] != root_id and r[4] not in child_failed:
                child_failed[r[4]] = r[SEQ]
        for cid_, fseq in child_failed.items():
            owners = [(sid, inv_id) for sid, inv_id, src in minv if cid_ == f"{root_id}:{inv_id}" or cid_.startswith(f"{root_id}:{src}:")]
            if len(owners) != 1:
                continue
            sid, inv_id = owners[0]
            # only judged when the invoking state stays active, in one activation, until the run is quiet again
            later_exit = any(r[K] == "act" and r[4] == root_id and r[5] == "ex." + sid and r[SEQ] > fseq for r in res.trace)
            later_cut = has_log(w, "chained self-raised")
            fin_ = w.final_obs("final")
            if later_exit or later_cut or fin_ is None or sid not in fin_["cfg"]:
                done_tr = [r for r in res.trace if r[K] == "trans" and r[4] == root_id and r[7] == f"done.invoke.{inv_id}" and r[SEQ] > fseq]
                # even then a failed child must not be reported as done before the state was left
                first_exit = min([r[SEQ] for r in res.trace if r[K] == "act" and r[4] == root_id and r[5] == "ex." + sid and r[SEQ] > fseq] or [10 ** 18])
                if any(t_[SEQ] < first_exit for t_ in done_tr) and not later_cut:
                    vios.append(Violation("C09", "failed-child-machine-reported-done", {"engine": sc["engine"]},
                                          f"child machine {cid_} ended in error but {sid} took its onDone (done.invoke.{inv_id})"))
                    break
                continue
            got_err = any(r[K] == "recv" and r[4] == root_id and r[5] == f"error.platform.{inv_id}" and r[SEQ] > fseq for r in res.trace)
            got_done = any(r[K] == "trans" and r[4] == root_id and r[7] == f"done.invoke.{inv_id}" and r[SEQ] > fseq for r in res.trace)
            if got_done:
                vios.append(Violation("C09", "failed-child-machine-reported-done", {"engine": sc["engine"]},
                                      f"child machine {cid_} ended in error but {sid} took its onDone (done.invoke.{inv_id})"))
                break
            declares_on_error = False

            def _find_inv(c, cur):
                nonlocal declares_on_error
                if cur == sid:
                    iv = c.get("invoke")
                    for one in (iv if isinstance(iv, list) else [iv] if iv else []):
                        if isinstance(one, dict) and one.get("id") == inv_id and one.get("onError"):
                            declares_on_error = True
                for k_, ch in (c.get("states") or {}).items():
                    _find_inv(ch, f"{cur}.{k_}")
            _find_inv(sc["machine"], root_id)
            if got_err and not declares_on_error and fin_["status"] == "running":
                vios.append(Violation("C09", "unhandled-failure-not-error-status", {"engine": sc["engine"], "status": fin_["status"], "src": "machine"},
                                      f"child machine {cid_} failed, {sid} declares no onError, but status is {fin_['status']}"))
                break
            if not got_err and fin_["status"] == "running":
                vios.append(Violation("C09", "child-machine-failure-not-reported", {"engine": sc["engine"]},
                                      f"child machine {cid_} ended in error while {sid} stayed active, but no error.platform.{inv_id} was delivered"))
                break
        for o_ in w.obs:
            if o_[5] != root_id or not isinstance(o_[6], dict) or o_[6].get("status") != "running":
                continue
            cfg_now = set(o_[6]["cfg"])
            bad = None
            for iid, ist, ipar in o_[6].get("interps") or ():
                if ist != "running" or ipar != root_id:
                    continue
                owners = [sid for sid, inv_id, src in minv if iid == f"{root_id}:{inv_id}" or iid.startswith(f"{root_id}:{src}:")]
                if owners and not any(sid in cfg_now for sid in owners):
                    bad = (iid, owners)
                    break
            if bad:
                vios.append(Violation("C09", "child-machine-survived-exit", {"engine": sc["engine"]},
                                      f"child interpreter {bad[0]} is still running at observation {o_[4]} although none of its invoking "
                                      f"states {bad[1]} is active"))
                break
    after_stop = w.final_obs("after-stop")
    if after_stop is not None:
        # a sync actor's polling thread notices the stop at its next poll (<= 10 ms): it is judged once the clock has moved
        late = w.final_obs("after-stop-late")
        now_census = tuple(c_ for c_ in after_stop["census"] if not str(c_).startswith("actor-"))
        late_census = tuple(late["census"]) if late is not None else ()
        if now_census or late_census:
            vios.append(Violation("C09", "alive-after-stop", {"engine": sc["engine"]},
                                  f"after stop(): still alive {now_census or late_census}"))
        # no interpreter created for an invoked machine (or by one) is still running
        zombies = [i_ for i_ in (after_stop.get("interps") or ()) if i_[1] == "running"]
        if zombies:
            vios.append(Violation("C09", "child-interpreter-alive-after-stop", {"engine": sc["engine"]},
                                  f"after stop(): interpreters still running {zombies[:3]}"))
        for ident, c in calls.items():
            spec = svc_specs.get(ident[0]) or {}
            if spec.get("k") == "coro" and ident not in ends:
                vios.append(Violation("C09", "service-never-ended", {"engine": sc["engine"]},
                                      f"service {ident} neither finished nor observed cancellation by the time stop() returned"))
    return vios


def stats_c09(sc, res):
    s = {"svc_calls": 0, "svc_return": 0, "svc_raise": 0, "svc_cancelled": 0, "completion_recv": 0,
         "preempts_done": int(res.meta.get("preempts_done") or 0)}
    for r in res.trace:
        if r[K] == "svc-call":
            s["svc_calls"] += 1
        elif r[K] == "svc-end":
            s["svc_" + r[6]] = s.get("svc_" + r[6], 0) + 1
        elif r[K] == "recv" and str(r[5]).startswith(("done.invoke.", "error.platform.")):
            s["completion_recv"] += 1
    return s


# ===========================================================================
# C10 - completion
# ===========================================================================

def _static_output(o):
    """A generated dynamic output ({"$fn": const}) evaluates to its constant."""
    if isinstance(o, dict) and isinstance(o.get("$fn"), dict) and o["$fn"].get("k") == "const":
        return o["$fn"].get("v")
    return o


def oracle_c10(sc, res):
    w = Walk(sc, res)
    m = w.model
    vios = []
    if w.aborted():
        return vios
    root = w.iid
    start_ret = w.ops_ret.get(0)
    if start_ret is None or (isinstance(start_ret[6], tuple) and start_ret[6][0] == "exc"):
        return vios
    owners = [n for n in m.by_id.values() if n.on_done is not None and n is not m.root]
    cfg = set()
    instants = {n.id: 0 for n in owners}   # completion instants so far
    firings = {n.id: 0 for n in owners}    # onDone transitions so far
    last_instant_seq = {}
    at_recv = {}
    done_status_seq = None
    reported = set()
    ambiguous = set()
    outs_seen = {}
    voids = {}
    for r in res.trace:
        k = r[K]
        if k == "act" and r[4] == root and r[5].startswith(("en.", "ex.")):
            sid = r[5][3:]
            if r[5].startswith("ex."):
                cfg.discard(sid)
                if sid in instants:
                    # leaving the owner voids completions whose done event has not been handled yet
                    voids[sid] = (r[SEQ], instants[sid] - firings[sid])
                    firings[sid] = instants[sid]
                continue
            cfg.add(sid)
            F = m.node(sid)
            if F is None or F.kind != "final":
                continue
            for n in owners:
                if n.id not in cfg or not F.is_descendant_of(n):
                    continue
                strict = (F.parent is n) if n.kind == "compound" else m.strict_done(n, cfg)
                recursive = m.is_done(n, cfg)
                if strict != recursive:
                    # the strict (direct child) and the implementation's recursive reading of "done"
                    # disagree for this owner: the oracle stays silent about it (DESIGN C10 leniency)
                    ambiguous.add(n.id)
                if strict:
                    instants[n.id] += 1
                    last_instant_seq[n.id] = r[SEQ]
                    outs_seen.setdefault(n.id, []).append(_static_output(F.output))
        elif k == "recv" and r[4] == root:
            et = r[5]
            if et.startswith("done.state."):
                oid = et[len("done.state."):]
                n = m.node(oid)
                if n is not None and n.on_done is not None:
                    at_recv[oid] = (oid in cfg and m.is_done(n, cfg), sorted(cfg), r[SEQ])
                    outs = outs_seen.get(oid, [])
                    if oid not in ambiguous and outs and r[7] not in outs:
                        vios.append(Violation("C10", "done-data", {"engine": sc["engine"]},
                                              f"{et} carries {r[7]!r}; outputs of the final states that completed {oid}: {outs}"))
        elif k == "trans" and r[4] == root:
            t = m.trans.get(r[5])
            if t is not None and t.kind == "onDone":
                A = t.source
                st = at_recv.pop(A.id, None)
                v = voids.get(A.id)
                if v is not None and st is not None and v[0] > st[2]:
                    firings[A.id] -= v[1]  # the owner was exited by this very onDone transition
                    voids.pop(A.id)
                firings[A.id] += 1
                if firings[A.id] > instants[A.id] and ("twice", A.id) not in reported and A.id not in ambiguous:
                    reported.add(("twice", A.id))
                    strict_eq = True
                    vios.append(Violation("C10", "ondone-more-than-completions", {"engine": sc["engine"], "kind": A.kind},
                                          f"onDone of {A.id} taken {firings[A.id]} times but it completed only {instants[A.id]} times"))
                # "never while any region is not final" is judged at the completion instant (a firing needs an
                # instant at which every region was final: firings <= instants above); by the time the queued
                # done event is taken an earlier queued event may legitimately have moved a region on.
        elif k == "obs" and r[5] == root:
            o = r[6]
            if o["status"] != "running":
                continue
            for n in owners:
                if n.id not in o["cfg"] or ("missing", n.id) in reported or n.id in ambiguous:
                    continue
                if not const_true_guard(sc, n.on_done.guard):
                    continue
                still_done = m.is_done(n, set(o["cfg"])) and (n.kind == "compound" or m.strict_done(n, set(o["cfg"])))
                if has_log(w, "Discarding") or has_log(w, "chained self-raised"):
                    continue  # a self-feeding chain was cut at maxIterations (C13): the cut event may be this done event
                if still_done and instants[n.id] > firings[n.id]:
                    reported.add(("missing", n.id))
                    vios.append(Violation(
                        "C10", "ondone-missing",
                        {"engine": sc["engine"], "kind": n.kind,
                         "targetless_ondone_below": any(x.on_done is not None and x.on_done.target is None
                                                        for x in m.by_id.values() if x.is_descendant_of(n)),
                         "discard_logged": has_log(w, "Discarding") or has_log(w, "chained self-raised")},
                        f"{n.id} completed {instants[n.id]} times (last at seq {last_instant_seq.get(n.id)}), is still done and active at the "
                        f"quiescent observation {r[4]} (seq {r[SEQ]}) but its onDone ran only {firings[n.id]} times"))
        elif k == "done-hook" and r[4] == root:
            if done_status_seq is not None:
                vios.append(Violation("C10", "done-twice", {"engine": sc["engine"]}, "on_done plugin hook called twice"))
            done_status_seq = r[SEQ]
    # ---- top level
    top_finals = [c for c in m.root.children if c.kind == "final"]
    fin = w.final_obs("final")
    entered_top_final = None
    for seq, sid in w.entry_seq:
        n = m.node(sid)
        if n is not None and n.kind == "final" and n.parent is m.root:
            entered_top_final = (seq, n)
            break
    if entered_top_final is not None and fin is not None:
        seq0, F = entered_top_final
        if fin["status"] not in ("done", "stopped", "error"):
            vios.append(Violation("C10", "top-final-not-done", {"engine": sc["engine"], "status": fin["status"]},
                                  f"top-level final state {F.id} was entered but status is {fin['status']}"))
        elif fin["status"] == "done":
            want = _static_output(sc["machine"].get("output") if sc["machine"].get("output") is not None else F.output)
            if fin["output"] != want:
                vios.append(Violation("C10", "machine-output", {"engine": sc["engine"], "machine_level": sc["machine"].get("output") is not None},
                                      f"status done, output {fin['output']!r}, expected {want!r}"))
            if done_status_seq is None:
                vios.append(Violation("C10", "done-hook-missing", {"engine": sc["engine"]}, "status done but on_done hook never called"))
        # events sent after completion are ignored: no record of any kind in response
        if done_status_seq is not None:
            quiet_from = None
            for r in res.trace:
                if r[K] == "op-call" and r[5] in ("send", "send_events") and r[SEQ] > done_status_seq and r[8] == "done":
                    quiet_from = r[SEQ]
                    break
            if quiet_from is not None:
                # (guards / callables of invoked child machines keep running until stop(): they are not "in response")
                child_names = set()
                for ch_ in (sc.get("children") or {}).values():
                    lg_ = ch_.get("logic") or {}
                    child_names |= set(lg_.get("guards") or {}) | set(lg_.get("actions") or {})
                for r in res.trace:
                    if r[K] in ("gcall", "ucall") and (r[4] in child_names or (len(r) > 5 and r[5] in child_names)):
                        continue
                    if r[SEQ] > quiet_from and r[K] in ("recv", "act", "trans", "gcall", "ucall") and (r[K] in ("gcall", "ucall") or r[4] == root):
                        vios.append(Violation("C10", "activity-after-done", {"engine": sc["engine"], "kind": r[K]},
                                              f"after completion an event was sent (seq {quiet_from}) and {r[K]} {r[4:7]} followed at seq {r[SEQ]}"))
                        break
    # once the machine has completed nothing is taken from the queue any more - also not events that were accepted while it
    # was still running and are queued behind the one that completed it (the tail of a send_events batch, a raised event)
    done_seq = next((r[SEQ] for r in res.trace if r[K] == "done-hook" and r[4] == root), None)
    if done_seq is not None:
        late_recv = [r for r in res.trace if r[K] == "recv" and r[4] == root and r[SEQ] > done_seq]
        if late_recv:
            vios.append(Violation("C10", "event-processed-after-done", {"engine": sc["engine"]},
                                  f"after the machine completed (seq {done_seq}) event {late_recv[0][5]} was still taken from the queue and "
                                  f"processed (seq {late_recv[0][SEQ]})"))
    after_stop = w.final_obs("after-stop")
    if after_stop is not None:
        # a sync actor's polling thread notices the stop at its next poll (<= 10 ms): judged once the clock has moved
        late = w.final_obs("after-stop-late")
        left = tuple(c_ for c_ in after_stop["census"] if not str(c_).startswith("actor-")) or (tuple(late["census"]) if late else ())
        zombies = [i_ for i_ in (after_stop.get("interps") or ()) if i_[1] == "running"]
        if left or zombies:
            vios.append(Violation("C10", "alive-after-stop", {"engine": sc["engine"], "status_before": fin["status"] if fin else None},
                                  f"stop() left {left or zombies} alive"))
    return vios


def stats_c10(sc, res):
    s = {"final_entries": 0, "ondone_taken": 0, "top_level_done": 0, "sends_after_done": 0}
    for r in res.trace:
        if r[K] == "trans" and str(r[7]).startswith("done.state."):
            s["ondone_taken"] += 1
        elif r[K] == "done-hook":
            s["top_level_done"] += 1
        elif r[K] == "op-call" and r[5] == "send" and r[8] == "done":
            s["sends_after_done"] += 1
    return s


# ===========================================================================
# C11 - history
# ===========================================================================

def oracle_c11(sc, res):
    w = Walk(sc, res)
    m = w.model
    vios = []
    if w.aborted():
        return vios
    root = w.iid
    start_ret = w.ops_ret.get(0)
    if start_ret is None or (isinstance(start_ret[6], tuple) and start_ret[6][0] == "exc"):
        return vios
    owners = {n.id for n in m.by_id.values() if any(c.kind == "history" for c in n.children)}
    cfg = set()
    recorded = {}
    seg_pre = None      # configuration before the first exit of the current transition
    seg_entries = []
    restored = False
    for r in res.trace:
        k = r[K]
        if k == "op-ret" and r[5] == "restore":
            restored = True
            cfg = None  # unknown until the next observation
            continue
        if k == "obs" and r[5] == root and cfg is None:
            cfg = set(r[6]["cfg"])
            continue
        if cfg is None:
            continue
        if k == "recv" and r[4] == root:
            seg_pre = None
            seg_entries = []
        elif k == "act" and r[4] == root and r[5].startswith(("en.", "ex.")):
            sid = r[5][3:]
            if r[5].startswith("ex."):
                if seg_entries:
                    # exits always precede entries inside one transition: this is a new transition
                    # (e.g. the first always-transition right after the initial entry)
                    seg_pre = None
                    seg_entries = []
                if seg_pre is None:
                    seg_pre = set(cfg)
                if sid in owners:
                    n = m.node(sid)
                    recorded[sid] = {d for d in seg_pre if d != sid and m.node(d) is not None and m.node(d).is_descendant_of(n)}
                cfg.discard(sid)
            else:
                if seg_pre is None:
                    seg_pre = set(cfg)
                cfg.add(sid)
                seg_entries.append(sid)
        elif k == "trans" and r[4] == root:
            t = m.trans.get(r[5])
            pre = seg_pre if seg_pre is not None else set(cfg)
            entries = seg_entries
            seg_pre = None
            seg_entries = []
            if t is None or t.target is None or t.target.kind != "history":
                continue
            h = t.target
            P = h.parent
            if t.source.is_descendant_of(P, strict=False) or P.id in pre:
                continue  # outside the property's scope (source inside the parent / parent still active)
            rec = recorded.get(P.id)
            if not rec:
                mode = "default"
                if h.hist_default is not None:
                    D = h.hist_default
                    exp = set()
                    # enter D normally; a parallel parent also enters its other regions
                    chain = [D] + [a for a in D.ancestors() if a.is_descendant_of(P)]
                    for x in chain:
                        exp.add(x.id)
                    for x in m.descend(D):
                        exp.add(x.id)
                    cur = D
                    while cur is not None and cur is not P:
                        par = cur.parent
                        if par is not None and par.kind == "parallel" and (par is P or par.is_descendant_of(P)):
                            for reg in par.regions():
                                if reg is not cur:
                                    for x in m.descend(reg):
                                        exp.add(x.id)
                        cur = par
                else:
                    exp = {x.id for x in m.descend(P)} - {P.id}
            elif h.history == "deep":
                mode = "deep"
                exp = set(rec)
            else:
                mode = "shallow"
                exp = set()
                for cid in rec:
                    c = m.node(cid)
                    if c is not None and c.parent is P:
                        for x in m.descend(c):
                            exp.add(x.id)
            actual = {i for i in r[10] if m.node(i) is not None and m.node(i).is_descendant_of(P)}
            sig = {"engine": sc["engine"], "mode": mode, "history": h.history, "parent_kind": P.kind, "after_restore": restored}
            if actual != exp:
                vios.append(Violation("C11", "history-restore-mismatch", sig,
                                      f"{t.tid} -> {h.id}: expected under {P.id} {sorted(exp)}, got {sorted(actual)} (recorded {sorted(rec) if rec else None})"))
                continue
            # whatever the transition enters OUTSIDE the history state's parent is entered normally: a sibling region of an
            # enclosing parallel state that was not active before gets its default configuration, not a remembered one
            A = P.parent
            below = P
            while A is not None:
                if A.kind == "parallel" and A.id not in pre:
                    for reg in A.regions():
                        if reg is below:
                            continue
                        want_reg = {x.id for x in m.descend(reg)} | {reg.id}
                        got_reg = {i for i in r[10] if m.node(i) is not None and m.node(i).is_descendant_of(reg, strict=False)}
                        if got_reg != want_reg:
                            vios.append(Violation("C11", "history-transition-disturbed-other-region", sig,
                                                  f"{t.tid} -> {h.id}: region {reg.id} (entered by the same transition, normally) has "
                                                  f"{sorted(got_reg)}, expected its default configuration {sorted(want_reg)}"))
                            break
                below = A
                A = A.parent
            under = [e for e in entries if m.node(e) is not None and m.node(e).is_descendant_of(P, strict=False)]
            dup = sorted({e for e in under if under.count(e) > 1})
            if dup:
                vios.append(Violation("C11", "restored-state-entered-twice", sig, f"{t.tid} -> {h.id}: entered more than once: {dup}"))
            missing = sorted((exp | {P.id}) - set(under))
            if missing:
                vios.append(Violation("C11", "restored-state-not-entered", sig, f"{t.tid} -> {h.id}: active but no entry action ran for {missing}"))
    return vios


def stats_c11(sc, res):
    s = {"history_transitions": 0, "restores": 0}
    m = Model(sc["machine"])
    for r in res.trace:
        if r[K] == "trans":
            t = m.trans.get(r[5])
            if t is not None and t.target is not None and t.target.kind == "history":
                s["history_transitions"] += 1
        elif r[K] == "op-ret" and r[5] == "restore":
            s["restores"] += 1
    return s


# ===========================================================================
# C16 - determinism (multi-execution runner)
# ===========================================================================

def normalise_trace(trace):
    """Projection compared across executions: what happened, in which order (no seq / time / worker)."""
    out = []
    for r in trace:
        k = r[K]
        if k in ("act", "recv", "guard", "gcall", "ucall", "actx", "svc-call", "svc-end", "sub", "emit", "emit2", "emit3", "emitx", "fault"):
            out.append((k,) + tuple(r[4:]))
        elif k == "trans":
            out.append((k,) + tuple(r[4:8]) + (r[10],))
        elif k == "obs":
            o = r[6]
            out.append((k, r[4], o["cfg"], repr(o["ctx"]), o["status"], repr(o["output"]), tuple(sorted(o["history"].items()))))
        elif k == "pure":
            out.append((k,) + tuple(repr(x) for x in r[4:]))
    return out


_UUID_RE = None


def _canon_ids(norm):
    """Replace uuid4-shaped tokens by the ordinal of their first appearance: generated identifiers may differ between runs."""
    global _UUID_RE
    import re
    if _UUID_RE is None:
        _UUID_RE = re.compile(r"[0-9a-f]{8}-[0-9a-f]{4}-[0-9a-f]{4}-[0-9a-f]{4}-[0-9a-f]{12}")
    seen = {}

    def sub(mo):
        return seen.setdefault(mo.group(0), f"<id{len(seen)}>")
    return [_UUID_RE.sub(sub, repr(x)) for x in norm]


def run_c16(sc):
    from .execs import execute
    import copy as _copy
    variants = [("salt", sc.get("salt", 0)), ("salt", sc.get("salt", 0) * 31 + 7), ("salt", sc.get("salt", 0) * 131 + 1013),
                ("salt", 999983 - sc.get("salt", 0)), ("address", 0), ("address", 4000 + sc.get("seed", 0) % 3000)]
    results = []
    base = None
    vios = []
    m = Model(sc["machine"])
    for vi, (mode, val) in enumerate(variants):
        s2 = _copy.deepcopy(sc)
        s2["fn_garbage"] = vi * 7 + (3 if vi else 0)
        if mode == "salt":
            s2["salt"] = val
            s2["hash_mode"] = "salted"
        else:
            s2["hash_mode"] = "address"
            s2["heap_garbage"] = val
        res = execute(s2)
        results.append(res)
        if res.meta.get("harness_error"):
            return results, []
        if res.meta.get("abort"):
            return results, []
        norm = normalise_trace(res.trace)
        if sc.get("uuid_mode") == "hex":
            norm = [(x,) for x in _canon_ids(norm)]
        if base is None:
            base = norm
            continue
        if norm != base and not vios:
            i = 0
            while i < min(len(norm), len(base)) and norm[i] == base[i]:
                i += 1
            a = base[i] if i < len(base) else None
            b = norm[i] if i < len(norm) else None
            # structural facts about the last transition before the divergence
            hist = False
            par = False
            for x in reversed(base[:i + 1]):
                if len(x) > 2 and x[0] == "trans":
                    t = m.trans.get(x[2])
                    if t is not None and t.target is not None:
                        hist = t.target.kind == "history"
                    break
            kind = (a or b)[0] if len(a or b) > 1 else "record"
            if str(kind).startswith("emit"):
                kind = "emit"  # which of the listeners comes first under an address-ordered container is not stable
            names = sorted([str((a or ("",) * 3)[2]), str((b or ("",) * 3)[2])]) if len(a or b) > 2 else ["", ""]
            role = "entry" if all(n.startswith("en.") for n in names) else ("exit" if all(n.startswith("ex.") for n in names) else "other")
            vios.append(Violation("C16", "nondeterministic-trace",
                                  {"engine": sc["engine"], "record": kind, "role": role},
                                  f"execution under {mode}={val} diverges from the first at record {i}: {a} vs {b}",
                                  detail={"variant": [mode, val]}))
    return results, vios


# ===========================================================================
# C05 - engine equivalence (multi-execution runner)
# ===========================================================================

def _fires_for(t, etype):
    """A recorded transition belongs to this event: declared under the identical key or under a descriptor matching it."""
    if t.event == etype:
        return True
    from .model import match_descriptors
    return t.kind == "on" and bool(match_descriptors({t.event: 1}, etype))


def _norm_ev(etype):
    if etype is None:
        return None
    s = str(etype)
    if s in _SYNTH or s.startswith(("entry.", "exit.")):
        return None
    return s


def _per_op(res, root):
    """op index -> dict(acts=[(name, ev, tag)], actx=[type], obs=obs or None, ret=...)."""
    out = {}
    cur = None
    for r in res.trace:
        k = r[K]
        if k == "op-call":
            cur = out.setdefault(r[4], {"acts": [], "actx": [], "obs": None, "ret": None, "ucalls": []})
        elif k == "op-ret":
            out.setdefault(r[4], {"acts": [], "actx": [], "obs": None, "ret": None, "ucalls": []})["ret"] = r[6]
        elif cur is not None:
            if k == "act" and r[4] == root:
                cur["acts"].append((r[5], _norm_ev(r[6]), r[7]))
            elif k == "actx" and r[4] == root:
                cur["actx"].append(r[5])
            elif k == "ucall":
                cur["ucalls"].append(tuple(r[4:6]))
            elif k == "obs" and r[5] == root and str(r[4]).startswith("after-op"):
                i = int(str(r[4])[len("after-op"):])
                if i in out:
                    out[i]["obs"] = r[6]
    return out


def run_c05(sc):
    from .execs import execute
    import copy as _copy
    root = sc["machine"]["id"]
    legs = sc.get("legs") or ["sync", "async", "pure"]
    results = {}
    vios = []
    for leg in legs:
        s2 = _copy.deepcopy(sc)
        s2["engine"] = leg
        if leg == "async2":
            s2["engine"] = "async"
            # a different schedule: every op from another client task, with an idle client in between
            ops = []
            for i, op in enumerate(s2["ops"]):
                op = dict(op)
                if op["op"] in ("send", "start"):
                    op["client"] = i % 3
                ops.append(op)
            s2["ops"] = ops
            s2["sched"] = dict(s2.get("sched") or {}, tie_seed=(s2.get("sched") or {}).get("tie_seed", 0) + 17)
        res = execute(s2)
        results[leg] = res
        if res.meta.get("harness_error") or res.meta.get("abort"):
            return list(results.values()), []
    # a run that hit one of the maxIterations bounds is not compared: what happens at the cut is C13's business
    for r in results.values():
        if any(x[K] == "log" and "Exceeded" in (x[7] or "") for x in r.trace):
            return list(results.values()), []
    flags = {"uses_history": bool(sc.get("uses_history")), "uses_raise": bool(sc.get("uses_raise")),
             "uses_nested_actions": bool(sc.get("uses_nested")), "uses_invoke": bool(sc.get("uses_invoke"))}
    per = {leg: _per_op(r, root) for leg, r in results.items() if leg != "pure"}
    ref_leg = "sync" if "sync" in per else legs[0]
    ref = per.get(ref_leg, {})
    for leg, p in per.items():
        if leg == ref_leg:
            continue
        for i in sorted(ref):
            a, b = ref[i], p.get(i)
            if b is None:
                continue
            if (a["ret"] == "ok") != (b["ret"] == "ok"):
                # the sync engine raises configuration errors out of send(); the async engine logs them
                continue
            if a["obs"] is not None and b["obs"] is not None:
                for key in ("cfg", "ctx", "status", "output"):
                    if a["obs"][key] != b["obs"][key]:
                        vios.append(Violation("C05", "engines-disagree", {"legs": f"{ref_leg}/{leg}", "field": key, "uses_invoke": flags["uses_invoke"]},
                                              f"after op {i} ({sc['ops'][i]}): {ref_leg} {key}={a['obs'][key]!r} vs {leg} {key}={b['obs'][key]!r}"))
                        return list(results.values()), vios
            if a["acts"] != b["acts"]:
                j = 0
                while j < min(len(a["acts"]), len(b["acts"])) and a["acts"][j] == b["acts"][j]:
                    j += 1
                x = a["acts"][j] if j < len(a["acts"]) else None
                y = b["acts"][j] if j < len(b["acts"]) else None
                same_names = [q[0] for q in a["acts"]] == [q[0] for q in b["acts"]]
                same_set = sorted(map(repr, a["acts"])) == sorted(map(repr, b["acts"]))
                vios.append(Violation("C05", "action-trace-differs",
                                      {"legs": f"{ref_leg}/{leg}", "same_names": same_names, "same_multiset": same_set,
                                       "uses_invoke": flags["uses_invoke"],
                                       "entry_order": bool(x and y and x[0].startswith("en.") and y[0].startswith("en."))},
                                      f"after op {i} ({sc['ops'][i]}): action #{j} {ref_leg}={x} vs {leg}={y}"))
                return list(results.values()), vios
    if "pure" in results:
        pr = results["pure"]
        if pr.meta.get("user_calls"):
            vios.append(Violation("C05", "pure-ran-user-action", {}, f"pure API invoked {pr.meta['user_calls']} generated action callables"))
        if pr.meta.get("threads"):
            vios.append(Violation("C05", "pure-started-thread", {}, f"pure API started {pr.meta['threads']} threads"))
        svc_calls = [r for r in pr.trace if r[K] == "svc-call"]
        if svc_calls:
            vios.append(Violation("C05", "pure-ran-service", {}, f"pure API called invoked service {svc_calls[0][5]} ({len(svc_calls)} calls)"))
        started = [r for r in pr.trace if r[K] == "i-start" and r[4] != root]
        if started:
            vios.append(Violation("C05", "pure-started-actor", {}, f"pure API started child interpreter {started[0][4]} ({len(started)} starts)"))
        pure_recs = {r[4]: r for r in pr.trace if r[K] == "pure"}
        for r in pr.trace:
            if r[K] == "pure-input-mutated":
                vios.append(Violation("C05", "pure-mutated-input-snapshot", {}, f"transition() changed the snapshot passed in (op {r[4]})"))
        for i in sorted(ref):
            a = ref[i]
            pr_i = pure_recs.get(i)
            if pr_i is None or a["obs"] is None or a["ret"] != "ok":
                continue
            cfg, ctx, status, output, names = pr_i[6], pr_i[7], pr_i[8], pr_i[9], pr_i[10]
            status = "running" if status == "active" else status
            for key, pv in (("cfg", tuple(cfg)), ("ctx", ctx), ("status", status), ("output", output)):
                if a["obs"][key] != pv:
                    vios.append(Violation("C05", "pure-disagrees", dict(flags, field=key),
                                          f"after op {i} ({sc['ops'][i]}): {ref_leg} {key}={a['obs'][key]!r} vs pure {key}={pv!r}"))
                    return list(results.values()), vios
            if list(names) != list(a["actx"]):
                vios.append(Violation("C05", "pure-action-list-differs", dict(flags),
                                      f"after op {i}: {ref_leg} executed {a['actx']} but transition() reported {list(names)}"))
                return list(results.values()), vios
    return list(results.values()), vios


# ===========================================================================
# C06 - guards gate exactly (composites, stateIn, cond, raise=false, missing=error)
# ===========================================================================
MISSING_NAMES = ("g_missing1", "g_missing2")


def _guard_mentions_missing(g):
    if g is None:
        return False
    if isinstance(g, str):
        return g in MISSING_NAMES
    if g.get("type") in MISSING_NAMES:
        return True
    kids = list(g.get("children") or [])
    p = g.get("params")
    if isinstance(p, dict):
        kids += list(p.get("guards") or []) + list(p.get("children") or [])
        if p.get("guard") is not None:
            kids.append(p["guard"])
    return any(_guard_mentions_missing(k) for k in kids)


def ref_guard_assign(sc, gcfg, ctx, cfg_ids, assign):
    """Reference value with the missing atoms fixed by `assign` (name -> bool)."""
    from .model import eval_guard

    def atom(name, params):
        if name in MISSING_NAMES:
            return assign.get(name, False)
        p = params
        if isinstance(p, dict) and "$fn" in p:
            fs = p["$fn"]
            p = fs.get("v") if fs.get("k") == "const" else None
        return guard_atom_value(sc, name, p, ctx)

    def state_in(target):
        t = target[1:] if target.startswith("#") else target
        return any(i == t or i.endswith("." + t) for i in cfg_ids)
    return eval_guard(gcfg, atom, state_in)


def _find_choose_and_enq(cfg, chooses, enqs):
    if isinstance(cfg, dict):
        if cfg.get("type") == "xstate.choose":
            conds = (cfg.get("params") or {}).get("conditions") or []
            for bi, c in enumerate(conds):
                acts = c.get("actions") or []
                if acts and isinstance(acts[0], str) and acts[0].startswith("ch."):
                    cid = acts[0].split(".")[1]
                    chooses[cid] = conds
                    break
        if "$fn" in cfg and isinstance(cfg["$fn"], dict) and cfg["$fn"].get("k") == "enq":
            enqs[cfg["$fn"].get("name")] = cfg["$fn"].get("checks") or []
        for v in cfg.values():
            _find_choose_and_enq(v, chooses, enqs)
    elif isinstance(cfg, list):
        for v in cfg:
            _find_choose_and_enq(v, chooses, enqs)


def oracle_c06(sc, res):
    import itertools
    w = Walk(sc, res)
    m = w.model
    vios = []
    start_ret = w.ops_ret.get(0)
    if start_ret is None or w.aborted():
        return vios
    if isinstance(start_ret[6], tuple) and start_ret[6][0] == "exc":
        # start() may itself hit a missing guard (an always-transition): reported as a library error
        if start_ret[6][1] != "ImplementationMissingError":
            pass
        return vios
    root = m.root.id
    # "A guard that raises counts as false ... and the interpreter is undisturbed": whatever the event kind (named, after,
    # done.invoke / error.platform, done.state), no exception other than the library's own errors may surface from
    # event processing - out of send()/start(), through the run loop's log, or by killing a timer thread
    for r in res.trace:
        if r[K] == "log" and r[6] and r[6] not in ("ImplementationMissingError", "StaticFault", "InjectedFault", "InvalidConfigError",
                                                   "StateNotFoundError", "NotSupportedError", "ActorSpawningError"):
            msg_ = r[7] or ""
            if "Error processing event" in msg_ or "after-timer thread" in msg_ or "rolling back" in msg_:
                vios.append(Violation("C06", "exception-escaped-event-processing", {"engine": sc["engine"], "exc": r[6]},
                                      f"{r[6]} surfaced while processing an event: {msg_[:140]}"))
                break
        if r[K] == "op-ret" and isinstance(r[6], tuple) and r[6] and r[6][0] == "exc" and not r[6][2] and r[5] in ("send", "send_events", "start"):
            vios.append(Violation("C06", "exception-escaped-event-processing", {"engine": sc["engine"], "exc": r[6][1]},
                                  f"{r[5]}() raised {r[6][1]} which is not a library error: {str(r[6][3])[:120]}"))
            break
    chooses, enqs = {}, {}
    _find_choose_and_enq(sc["machine"], chooses, enqs)
    ctx = dict(sc["machine"].get("context") or {})
    cfg = set()
    steps = []
    cur = None
    cur_op = None
    op_err = {}
    for r in res.trace:
        k = r[K]
        if k == "act" and r[4] == root:
            nm = r[5]
            if nm.startswith("en."):
                cfg.add(nm[3:])
            elif nm.startswith("ex."):
                cfg.discard(nm[3:])
            elif nm.startswith("ch."):
                _p, cid, bi = nm.split(".")
                conds = chooses.get(cid)
                if conds is not None:
                    exp = None
                    skip = False
                    for j, c in enumerate(conds):
                        g = c.get("guard", c.get("cond"))
                        if _guard_mentions_missing(g):
                            skip = True
                            break
                        if g is None or ref_guard_assign(sc, g, ctx, cfg, {}):
                            exp = j
                            break
                    if not skip and exp is not None and exp != int(bi):
                        vios.append(Violation("C06", "choose-wrong-branch", {"engine": sc["engine"]},
                                              f"choose #{cid}: branch {bi} ran, reference says branch {exp} (ctx {ctx}, cfg {sorted(cfg)}); guards {[c.get('guard', c.get('cond')) for c in conds]}"))
                        return vios
        if k == "ucall" and r[4] == "enq-check":
            checks = enqs.get(r[5])
            if checks is not None and r[6] < len(checks):
                g = checks[r[6]][0]
                if not _guard_mentions_missing(g) and isinstance(r[7], bool):
                    exp = ref_guard_assign(sc, g, ctx, cfg, {})
                    if exp != r[7]:
                        vios.append(Violation("C06", "enqueue-check-wrong", {"engine": sc["engine"]},
                                              f"enqueueActions check({g}) returned {r[7]}, reference {exp} (ctx {ctx}, cfg {sorted(cfg)})"))
                        return vios
        if k in ("act", "ucall"):
            if k == "ucall" or r[4] == root:
                apply_effects(ctx, sc, r)
        if k == "op-call":
            cur_op = r[4]
        if k == "op-ret" and isinstance(r[6], tuple) and r[6][0] == "exc":
            op_err[r[4]] = r[6]
        if k == "recv" and r[4] == root:
            cur = {"rv": r, "cfg": set(cfg), "ctx": dict(ctx), "recs": [], "op": cur_op, "err_log": False}
            steps.append(cur)
        elif cur is not None:
            if k == "trans" and r[4] == root:
                cur["recs"].append(r)
            elif k == "act" and r[4] == root and r[5].startswith("ex."):
                cur["recs"].append(r)
            elif k == "log" and r[6] == "ImplementationMissingError" and (
                    "Error processing event" in (r[7] or "") or "after-timer thread" in (r[7] or "")):
                # (the sync engine processes a timer's expiry - and whatever it raises - in the timer thread, which reports it)
                cur["err_log"] = True
            elif k == "op-ret":
                if isinstance(r[6], tuple) and r[6][0] == "exc" and r[6][1] == "ImplementationMissingError":
                    cur["err_log"] = True
                cur = None
    for st in steps:
        rv, cfg_at, ctx_at = st["rv"], st["cfg"], st["ctx"]
        etype = rv[5]
        ek, src = _event_kind(etype)
        # which missing atoms could matter in this pass (event candidates and eventless candidates on every chain)
        considered = []
        for leaf in m.leaves(cfg_at):
            n = leaf
            while n is not None:
                cands, _b = m.candidates(n, etype, ek, src)
                considered += cands + list(n.always)
                n = n.parent
        names = sorted({nm for t in considered for nm in MISSING_NAMES if _guard_mentions_missing(t.guard) and nm in repr(t.guard)})
        outcomes = set()
        for vals in itertools.product((False, True), repeat=len(names)):
            assign = dict(zip(names, vals))
            noms = m.nominate(cfg_at, etype, lambda t: ref_guard_assign(sc, t.guard, ctx_at, cfg_at, assign), ek, src)
            always_en = bool(m.nominate(cfg_at, "", lambda t: ref_guard_assign(sc, t.guard, ctx_at, cfg_at, assign))) if etype != "" else False
            outcomes.add((tuple(t.tid for t in noms), always_en))
        fired = []
        exited = set()
        for r in st["recs"]:
            if r[K] == "act":
                exited.add(r[5][3:])
            elif r[K] == "trans":
                t = m.trans.get(r[5])
                if t is not None and _fires_for(t, etype) and etype != "":
                    fired.append(t)
        fired_ids = [t.tid for t in fired]
        sig = {"engine": sc["engine"], "missing_involved": bool(names)}
        if st["err_log"]:
            if not names:
                vios.append(Violation("C06", "missing-error-without-missing-guard", sig,
                                      f"event {etype}: ImplementationMissingError reported but no candidate guard names a missing implementation"))
                return vios
            if fired_ids:
                vios.append(Violation("C06", "transition-after-missing-guard-error", sig,
                                      f"event {etype}: ImplementationMissingError reported and yet {fired_ids} fired"))
                return vios
            continue
        if any(ae for _n, ae in outcomes):
            continue  # an enabled eventless candidate competes in this pass (see C02 leniency)
        nomsets = {n for n, _ae in outcomes}
        if len(nomsets) > 1 and not fired_ids and (ek != "plain" or etype.startswith("done.state.")):
            continue  # a notification of an exited activation is discarded before any guard is looked at
        if len(nomsets) > 1:
            vios.append(Violation("C06", "missing-guard-decided-silently", sig,
                                  f"event {etype} in {sorted(cfg_at)} ctx={ctx_at}: outcome depends on unimplemented guard(s) {names} "
                                  f"(possible nominations {sorted(nomsets)}) but no ImplementationMissingError was reported; fired {fired_ids}"))
            return vios
        nom_ids = list(next(iter(nomsets)))
        for t in fired:
            if t.tid not in nom_ids:
                vios.append(Violation("C06", "guarded-transition-fired", dict(sig, guard_kind=type(t.guard).__name__),
                                      f"event {etype} in {sorted(cfg_at)} ctx={ctx_at}: {t.tid} (guard {t.guard}) fired; reference nomination {nom_ids}"))
                return vios
        for tid in nom_ids:
            if tid in fired_ids:
                continue
            t = m.trans[tid]
            if t.source.id in exited:
                continue
            if ek != "plain" or etype.startswith("done.state."):
                continue  # a notification of an exited activation is discarded (C08/C09/C10 judge those)
            vios.append(Violation("C06", "enabled-transition-not-fired", dict(sig, guard_kind=type(t.guard).__name__),
                                  f"event {etype} in {sorted(cfg_at)} ctx={ctx_at}: reference nominates {nom_ids} but fired {fired_ids}; {tid} guard {t.guard}"))
            return vios
    return vios


def stats_c06(sc, res):
    s = {"guard_calls": 0, "guard_raised": 0, "missing_errors": 0, "choose_runs": 0, "enq_checks": 0, "statein_in_machine": 0}
    for r in res.trace:
        if r[K] == "gcall":
            s["guard_calls"] += 1
            if str(r[7]).startswith("raise"):
                s["guard_raised"] += 1
        elif r[K] == "log" and r[6] == "ImplementationMissingError":
            s["missing_errors"] += 1
        elif r[K] == "op-ret" and isinstance(r[6], tuple) and r[6][0] == "exc" and r[6][1] == "ImplementationMissingError":
            s["missing_errors"] += 1
        elif r[K] == "act" and r[5].startswith("ch."):
            s["choose_runs"] += 1
        elif r[K] == "ucall" and r[4] == "enq-check":
            s["enq_checks"] += 1
    s["statein_in_machine"] = 1 if "stateIn" in repr(sc["machine"]) else 0
    return s
