"""C14 - interpreter lifecycle is a strict state machine; stop() releases everything."""
from __future__ import annotations

from .model import Model
from .tracewalk import K, SEQ, T, W, Violation

ALLOWED = {("uninitialized", "running"), ("running", "done"), ("running", "error"), ("running", "stopped"),
           ("done", "stopped"), ("error", "stopped"),
           # start() that fails during initial entry shuts the interpreter down
           ("uninitialized", "stopped"),
           # status is sampled at calls, returns, hooks and observations only: 'running' may be passed through unseen
           ("uninitialized", "done"), ("uninitialized", "error")}


def _classify(c):
    c = str(c)
    if c.startswith("after-") or "_after_timer_task" in c:
        return "timer"
    if c.startswith("send-") or "_delayed" in c:
        return "delayed-send"
    if c.startswith("actor-") or "_spawn_and_manage_actor" in c:
        return "actor"
    if "_invoke" in c or "svc" in c:
        return "service"
    if "_run_event_loop" in c:
        return "run-loop"
    return "other"


def oracle_c14(sc, res):
    root = sc["machine"]["id"]
    vios = []
    if res.meta.get("abort"):
        return vios
    eng = sc["engine"]
    preempted = bool(res.meta.get("preempts_done"))
    ops = sc.get("ops") or []
    status = "uninitialized"
    last_seq_status = None
    stop_call_seq = None
    stop_returned = None      # seq of the op-ret of the first stop() that found the interpreter stoppable
    stopped_inside = None
    pending_calls = {}
    dead_tags = set()
    generation = 0
    generation_of_stop = 0
    stop_time = None
    inflight_worker = None
    for r in res.trace:
        k = r[K]
        st = None
        if k == "op-ret" and r[5] == "restore":
            generation += 1
            status = r[7] if r[6] == "ok" else status
            stop_returned = None
            stop_call_seq = None
            stopped_inside = None
            continue
        if k == "op-call":
            pending_calls[r[4]] = r
            if r[5] in ("send", "send_events") and r[8] in ("done", "error", "stopped"):
                op = ops[r[4]] if r[4] < len(ops) else {}
                if op.get("op") == "send" and "tag" in op:
                    dead_tags.add(op["tag"])
                for e in op.get("events", []) if op.get("op") == "send_events" else []:
                    if "tag" in e:
                        dead_tags.add(e["tag"])
            st = r[8]
        elif k == "op-ret":
            st = r[7]
            call = pending_calls.get(r[4])
            out = r[6]
            if r[5] == "stop":
                if isinstance(out, tuple) and out[0] == "exc":
                    vios.append(Violation("C14", "stop-raised", {"engine": eng, "exc": out[1], "preempted": preempted,
                                                                 "from_action": False},
                                          f"stop() raised {out[1]}: {out[3]}"))
                elif stop_returned is None and call is not None and call[8] not in ("uninitialized",):
                    stop_returned = r[SEQ]
                    if stop_call_seq is None:
                        stop_call_seq = call[SEQ]   # the FIRST stop() of this generation that found something to stop
                    stop_time = r[T]
                    generation_of_stop = generation
                if r[7] not in ("stopped", "uninitialized") and not (call is not None and call[8] == "uninitialized"):
                    # (a stop() that found the interpreter not yet started is a no-op; a start() racing it legitimately runs)
                    vios.append(Violation("C14", "status-after-stop", {"engine": eng, "status": r[7]}, f"after stop() status is {r[7]}"))
            elif r[5] == "start" and call is not None:
                if call[8] == "stopped":
                    if not (isinstance(out, tuple) and out[0] == "exc" and out[2]):
                        vios.append(Violation("C14", "start-revived-stopped", {"engine": eng, "outcome": str(out)[:40]},
                                              f"start() on a stopped interpreter returned {out}"))
                elif call[8] == "running":
                    entries = [x for x in res.trace if call[SEQ] < x[SEQ] < r[SEQ] and x[K] == "act" and x[4] == root and x[5].startswith("en.")
                               and x[W] == call[W]]
                    if entries and generation == 0:
                        vios.append(Violation("C14", "second-start-reentered", {"engine": eng},
                                              f"start() while running executed entry actions {[e[5] for e in entries[:3]]}"))
        elif k == "recv" and r[4] == root:
            st = r[8]
            if r[6] in dead_tags:
                vios.append(Violation("C14", "dead-interpreter-processed-event", {"engine": eng},
                                      f"event tag {r[6]} was sent while the interpreter was done/error/stopped and was processed later"))
        elif k == "sub" and r[4] == root:
            st = r[6]
        elif k == "obs" and r[5] == root:
            st = r[6]["status"]
            zombies = [i_ for i_ in (r[6].get("interps") or ()) if i_[1] == "running" and i_[2] is not None]
            if stop_returned is not None and r[SEQ] > stop_returned and zombies and status == "stopped" and generation_of_stop == generation:
                # did every survivor begin its start() only after this stop() had been called (its actor thread racing stop())?
                last_start = {}
                for x in res.trace:
                    if x[K] == "i-start":
                        last_start[x[4]] = x[SEQ]
                raced = all(last_start.get(z_[0], -1) > (stop_call_seq or 0) for z_ in zombies)
                vios.append(Violation("C14", "alive-after-stop", {"engine": eng, "preempted": preempted,
                                                                  "stop_from_action": stopped_inside is not None, "what": "interpreter",
                                                                  "child_start_raced_stop": raced},
                                      f"after stop() returned: descendant interpreters still running {zombies[:3]} (observation {r[4]})"))
                stop_returned = None
            census_now = r[6]["census"] or ()
            if stop_returned is not None and stop_time is not None and r[T] <= stop_time + 10_000:
                # a sync actor's polling thread notices the stop at its next poll (<= 10 ms later): judged after that
                census_now = tuple(c_ for c_ in census_now if not str(c_).startswith("actor-"))
            if stop_returned is not None and r[SEQ] > stop_returned and census_now:
                vios.append(Violation("C14", "alive-after-stop", {"engine": eng, "preempted": preempted,
                                                                  "stop_from_action": stopped_inside is not None,
                                                                  "what": ",".join(sorted(set(_classify(c) for c in census_now)))},
                                      f"after stop() returned: still alive {census_now} (observation {r[4]})"))
                stop_returned = None  # report once
        elif k == "act-stop" and r[4] == root:
            stopped_inside = r[SEQ]
            if stop_returned is None:
                stop_returned = r[SEQ]
                stop_time = r[T]
                generation_of_stop = generation
        if st is not None and st != status:
            if (status, st) not in ALLOWED:
                vios.append(Violation("C14", "illegal-status-move", {"engine": eng, "from": status, "to": st, "preempted": preempted},
                                      f"status moved {status} -> {st} (seq {r[SEQ]})"))
            status = st
        if k == "act-stop" and r[4] == root:
            inflight_worker = r[W]
        elif inflight_worker is not None and ((k == "recv" and r[4] == root) or (k == "op-call" and r[W] == inflight_worker)):
            # the macrostep whose own action called stop() ends when its worker takes the next event (or returns to its
            # caller); calls made meanwhile by OTHER threads do not end it
            inflight_worker = None
        if stop_returned is not None and r[SEQ] > stop_returned and k in ("act", "trans", "recv") and r[4] == root:
            if inflight_worker is not None and r[W] == inflight_worker and k != "recv":
                continue  # the remainder of the macrostep whose own action called stop()
            if k == "trans" and r[7] == "___xstate_statemachine_init___":
                continue  # the tail of a concurrent start(): its plugin notification of the initial entry, not a delivery
            vios.append(Violation("C14", "activity-after-stop", {"engine": eng, "kind": k, "preempted": preempted,
                                                                "same_worker_as_stop": False},
                                  f"after stop() returned (seq {stop_returned}) the interpreter produced {k} {r[4:7]} at seq {r[SEQ]} by {r[W]}"))
            stop_returned = None
    return vios


def stats_c14(sc, res):
    s = {"stop_ops": 0, "start_ops": 0, "restore_ops": 0, "send_when_dead": 0, "stop_inside_action": 0,
         "preempts_done": int(res.meta.get("preempts_done") or 0)}
    for r in res.trace:
        if r[K] == "op-call":
            if r[5] == "stop":
                s["stop_ops"] += 1
            elif r[5] == "start":
                s["start_ops"] += 1
            elif r[5] in ("send", "send_events") and r[8] in ("done", "error", "stopped"):
                s["send_when_dead"] += 1
        elif r[K] == "op-ret" and r[5] == "restore":
            s["restore_ops"] += 1
        elif r[K] == "act-stop":
            s["stop_inside_action"] += 1
    return s
