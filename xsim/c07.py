"""C07 - failure containment and transition atomicity (fault enumeration)."""
from __future__ import annotations

import copy

from .execs import execute
from .model import Model
from .tracewalk import K, SEQ, T, Violation, Walk

MAX_POSITIONS = 48


def _cfg_seq(res, root):
    """Sequence of configurations + status seen at observations and transitions."""
    out = []
    for r in res.trace:
        if r[K] == "trans" and r[4] == root:
            out.append(("t", r[5], r[10]))
        elif r[K] == "obs" and r[5] == root:
            o = r[6]
            out.append(("o", r[4], o["cfg"], o["status"], o["output"]))
    return out


def _acts(res, root):
    return [(r[5], r[6], r[7]) for r in res.trace if r[K] == "act" and r[4] == root]


def _actx(res, root):
    return [r[5] for r in res.trace if r[K] == "actx" and r[4] == root]


def _later_observers(res):
    """What the observers registered after the (possibly raising) ones saw."""
    return [(r[K], r[4], r[5]) for r in res.trace if r[K] in ("sub2", "emit2")]


def _op_outcomes(res):
    return [(r[4], r[5], r[6] if not (isinstance(r[6], tuple) and r[6] and r[6][0] == "snapshot") else "snapshot") for r in res.trace if r[K] == "op-ret"]


def _list_remainder(base_actx, faulty_actx):
    """If faulty == base minus one contiguous block, return (start, block) else None."""
    i = 0
    while i < len(faulty_actx) and i < len(base_actx) and base_actx[i] == faulty_actx[i]:
        i += 1
    j = 0
    while j < len(faulty_actx) - i and j < len(base_actx) - i and base_actx[-1 - j] == faulty_actx[-1 - j]:
        j += 1
    if i + j < len(faulty_actx):
        return None
    block = base_actx[i:len(base_actx) - j]
    return i, block


def run_c07(sc):
    root = sc["machine"]["id"]
    mode = sc.get("c07_mode", "contain")
    if mode == "abort":
        return run_c07_abort(sc)
    sc = copy.deepcopy(sc)
    sc["second_plugin"] = True
    base_sc = copy.deepcopy(sc)
    base_sc["keep_call_kinds"] = True
    base_sc["faults"] = []
    base = execute(base_sc)
    results = [base]
    vios = []
    if base.meta.get("harness_error") or base.meta.get("abort"):
        return results, []
    kinds = base.meta.get("call_kinds") or []
    n = len(kinds)
    positions = list(range(1, n + 1))
    # (named-delay callables are not action callbacks: a failing one disables its timer by design - not judged here)
    eligible = [i for i in positions if kinds[i - 1][0] in ("action", "fn", "plugin", "subscriber", "listener", "guard")
                and not str(kinds[i - 1][1]).startswith("delay_")]
    if len(eligible) > MAX_POSITIONS:
        step = len(eligible) / MAX_POSITIONS
        eligible = [eligible[int(k * step)] for k in range(MAX_POSITIONS)]
    extra = sc.get("fault_pairs") or []
    ok_kinds = ("action", "fn", "plugin", "subscriber", "listener", "guard")
    plans = [[i] for i in eligible] + [list(p) for p in extra if all(1 <= x <= n and kinds[x - 1][0] in ok_kinds
                                                                     and not str(kinds[x - 1][1]).startswith("delay_") for x in p)]
    base_cfg = _cfg_seq(base, root)
    base_acts = _acts(base, root)
    base_actx = _actx(base, root)
    base_ops = _op_outcomes(base)
    base_later = _later_observers(base)
    tested = {"action": 0, "fn": 0, "plugin": 0, "subscriber": 0, "listener": 0, "guard": 0}
    doubles = 0
    noplug = 0
    for plan in plans:
        s2 = copy.deepcopy(sc)
        s2["faults"] = [{"at_call": i} for i in plan]
        res = execute(s2)
        results.append(res)
        if res.meta.get("harness_error"):
            return results, vios
        if res.meta.get("abort"):
            continue
        fired = res.meta.get("faults_fired") or []
        if not fired or any(str(f[2]).startswith("delay_") for f in fired):
            continue
        if len(fired) > 1 and len({f[1] for f in fired}) > 1:
            continue  # a pair that landed on two different kinds of call sites: covered by the single-fault runs
        kind = fired[0][1]
        tested[kind] = tested.get(kind, 0) + 1
        sig = {"engine": sc["engine"], "fault_kind": kind, "faults": len(fired)}
        escaped = [o for o in _op_outcomes(res) if isinstance(o[2], tuple) and o[2][0] == "exc"]
        base_escaped = [o for o in base_ops if isinstance(o[2], tuple) and o[2][0] == "exc"]
        if len(escaped) != len(base_escaped):
            vios.append(Violation("C07", "injected-fault-escaped", sig,
                                  f"fault at call {plan} ({fired[0][1:]}): exception escaped the public API: {escaped[:2]}"))
            break
        if kind in ("plugin", "subscriber", "listener"):
            # changes nothing at all
            if _cfg_seq(res, root) != base_cfg or _acts(res, root) != base_acts:
                vios.append(Violation("C07", "observer-fault-changed-behaviour", sig,
                                      f"fault at call {plan} in {fired[0][1:]} changed the run (configurations or actions differ from the fault-free run)"))
                break
            if _later_observers(res) != base_later:
                vios.append(Violation("C07", "observer-fault-starved-other-observers", sig,
                                      f"fault at call {plan} in {fired[0][1:]}: observers registered after the raising one saw "
                                      f"{len(_later_observers(res))} notifications instead of {len(base_later)}"))
                break
            continue
        if kind == "guard":
            # a raising guard counts as false: behaviour may differ; the interpreter must stay alive
            fo = [r for r in res.trace if r[K] == "obs" and r[4] == "final"]
            bo = [r for r in base.trace if r[K] == "obs" and r[4] == "final"]
            # (a guard that counts as false on a failing service's onError leaves the failure unhandled: `error` is then the
            # specified outcome, not a casualty of the raising guard)
            svc_failed = any(r[K] in ("svc-error",) or (r[K] == "svc-end" and r[6] == "raise") for r in res.trace)
            if fo and bo and fo[-1][6]["status"] != bo[-1][6]["status"] and fo[-1][6]["status"] in ("stopped", "error") \
                    and not (fo[-1][6]["status"] == "error" and svc_failed):
                vios.append(Violation("C07", "guard-fault-killed-interpreter", sig,
                                      f"raising guard at call {plan}: status became {fo[-1][6]['status']}"))
                break
            continue
        # action / built-in callback: only the remainder of that action list is skipped
        if _cfg_seq(res, root) != base_cfg:
            a, b = base_cfg, _cfg_seq(res, root)
            j = 0
            while j < min(len(a), len(b)) and a[j] == b[j]:
                j += 1
            vios.append(Violation("C07", "action-fault-changed-configurations", sig,
                                  f"fault at call {plan} ({fired[0][1:]}): configuration sequence differs at #{j}: fault-free {a[j] if j < len(a) else None} vs {b[j] if j < len(b) else None}"))
            break
        rem = _list_remainder(base_actx, _actx(res, root))
        if rem is None and len(fired) == 1:
            vios.append(Violation("C07", "action-fault-skipped-more-than-one-list", sig,
                                  f"fault at call {plan} ({fired[0][1:]}): executed actions are not the fault-free ones minus one contiguous remainder"))
            break
        errs = [r for r in res.trace if r[K] == "acterr" and r[4] == root]
        want_errs = sum(1 for f in fired if f[1] in ("action", "fn"))
        if len(errs) < want_errs and kind in ("action", "fn"):
            vios.append(Violation("C07", "on-action-error-not-notified", dict(sig, builtin=kind == "fn"),
                                  f"fault at call {plan} ({fired[0][1:]}): on_action_error called {len(errs)} times for {len(fired)} faults"))
            break
        # every registered plugin is told (the second, well-behaved one as often as the recording one)
        if kind in ("action", "fn") and len(plan) == 1:
            n2 = sum(1 for r in res.trace if r[K] == "acterr2" and r[4] == root)
            if n2 != len(errs):
                vios.append(Violation("C07", "on-action-error-not-notified", dict(sig, builtin=kind == "fn", plugin="second"),
                                      f"fault at call {plan} ({fired[0][1:]}): the first plugin's on_action_error ran {len(errs)} times, "
                                      f"the second plugin's {n2} times"))
                break
        # the same fault with NO plugin registered at all: observers must not be needed for containment to work
        if len(plan) == 1 and kind in ("action", "fn") and noplug < 8:
            noplug += 1
            knd, nm = kinds[plan[0] - 1]
            occ = sum(1 for x in kinds[:plan[0]] if x == (knd, nm))
            s4 = copy.deepcopy(sc)
            s4["no_plugin"] = True
            s4["faults"] = [{"at_occurrence": [knd, nm, occ]}]
            res4 = execute(s4)
            results.append(res4)
            if res4.meta.get("harness_error"):
                return results, vios
            if not res4.meta.get("abort") and res4.meta.get("faults_fired"):
                tested["no_plugin"] = tested.get("no_plugin", 0) + 1
                o3 = [x for x in _cfg_seq(res, root) if x[0] == "o"]
                o4 = [x for x in _cfg_seq(res4, root) if x[0] == "o"]
                if _acts(res4, root) != _acts(res, root) or o3 != o4:
                    vios.append(Violation("C07", "behaviour-depends-on-plugins", dict(sig, plugins=0),
                                          f"fault at call {plan} ({fired[0][1:]}): with no plugin registered the run differs from the run "
                                          f"with plugins ({len(_acts(res4, root))} vs {len(_acts(res, root))} user actions executed)"))
                    break
        # double fault: the same action / built-in callback fault while every on_action_error hook raises as well - an observer
        # fault "changes nothing at all", so the run must be the single-fault run
        if len(plan) == 1 and kind in ("action", "fn") and doubles < 10 and "on_action_error" in (sc.get("hostile_plugin") or []):
            doubles += 1
            s3 = copy.deepcopy(sc)
            s3["faults"] = [{"at_call": plan[0]}, {"always": ["plugin", "on_action_error"]}]
            res3 = execute(s3)
            results.append(res3)
            if res3.meta.get("harness_error"):
                return results, vios
            if not res3.meta.get("abort"):
                tested["double"] = tested.get("double", 0) + 1
                esc3 = [o for o in _op_outcomes(res3) if isinstance(o[2], tuple) and o[2][0] == "exc"]
                if len(esc3) != len(base_escaped):
                    vios.append(Violation("C07", "injected-fault-escaped", dict(sig, fault_kind="plugin", double=True),
                                          f"fault at call {plan} ({fired[0][1:]}) with a raising on_action_error hook: exception escaped "
                                          f"the public API: {esc3[:2]}"))
                    break
                if _cfg_seq(res3, root) != _cfg_seq(res, root) or _acts(res3, root) != _acts(res, root):
                    vios.append(Violation("C07", "observer-fault-changed-behaviour", dict(sig, fault_kind="plugin", double=True),
                                          f"fault at call {plan} ({fired[0][1:]}): a raising on_action_error hook changed the run "
                                          f"(configurations or actions differ from the run with the action fault alone)"))
                    break
    base.meta["c07_tested"] = tested
    base.meta["c07_positions"] = len(plans)
    return results, vios


# ---------------------------------------------------------------------------
def run_c07_abort(sc):
    """A transition that aborts midway (missing action / service, unresolvable target, coroutine action under sync)."""
    root = sc["machine"]["id"]
    res = execute(sc)
    vios = []
    if res.meta.get("harness_error") or res.meta.get("abort"):
        return [res], []
    w = Walk(sc, res)
    m = w.model
    start_ret = w.ops_ret.get(0)
    poison = sc.get("poison") or {}
    sig0 = {"engine": sc["engine"], "poison": poison.get("kind"), "where": poison.get("where")}
    if start_ret is None:
        return [res], []
    if isinstance(start_ret[6], tuple) and start_ret[6][0] == "exc":
        # failing during start(): must be a library error; nothing else is promised
        if not start_ret[6][2]:
            vios.append(Violation("C07", "abort-not-library-error", dict(sig0, during="start"),
                                  f"start() raised {start_ret[6][1]} which is not an XStateMachineError"))
        return [res], vios
    # walk: track tally, detect aborted transitions
    cfg = set()
    seg_start_cfg = None
    obs_after = {}
    for r in res.trace:
        if r[K] == "obs" and r[5] == root and str(r[4]).startswith("after-op"):
            obs_after[int(str(r[4])[8:])] = r
    errors = []  # (op index, seq, cfg before failing transition, exc info)
    cur_op = None
    recv_op = None   # async: send() returns before the run loop processes the event; attribute by the event's tag
    tag_op = {op.get("tag"): i for i, op in enumerate(sc["ops"]) if op.get("op") == "send" and op.get("tag") is not None}
    last_boundary_cfg = None
    seg_dirty = False
    seg_start_seq = None
    for r in res.trace:
        k = r[K]
        if k == "op-call":
            cur_op = r[4]
            last_boundary_cfg = set(cfg)
            seg_dirty = False
        elif k == "op-ret":
            cur_op = None
        elif k in ("recv", "trans") and r[4] == root:
            if k == "recv":
                recv_op = tag_op.get(r[6]) if r[6] is not None else None
            last_boundary_cfg = set(cfg) if k == "recv" else set(r[10])
            if k == "trans":
                cfg = set(r[10])
            seg_dirty = False
        elif k == "act" and r[4] == root and r[5].startswith(("en.", "ex.")):
            if not seg_dirty:
                last_boundary_cfg = set(cfg)
                seg_dirty = True
                seg_start_seq = r[SEQ]
            (cfg.add if r[5].startswith("en.") else cfg.discard)(r[5][3:])
        elif k == "log" and ("rolling back" in (r[7] or "") or "All resolution attempts failed" in (r[7] or "")):
            errors.append({"op": cur_op if cur_op is not None else (recv_op if sc["engine"] == "async" else None),
                           "seq": r[SEQ], "before": set(last_boundary_cfg or ()), "exc": r[6], "t": r[T],
                           "seq0": seg_start_seq if seg_dirty and seg_start_seq is not None else r[SEQ]})
            cfg = set(last_boundary_cfg or ())
            seg_dirty = False
    fin = w.final_obs("final")
    if errors:
        # whatever aborted (caller's event, timer expiry, service result): every later observation is a legal configuration
        for o_ in w.obs:
            if o_[5] == root and o_[SEQ] > errors[0]["seq"] and isinstance(o_[6], dict) and o_[6].get("status") == "running":
                probs = m.legal_problems(o_[6]["cfg"])
                if probs:
                    vios.append(Violation("C07", "illegal-configuration-after-abort", sig0,
                                          f"after an aborted transition the configuration {list(o_[6]['cfg'])} is not legal: {probs[:2]}"))
                    break
    for e in errors:
        if e["op"] is None or sc["ops"][e["op"]].get("op") != "send":
            continue  # aborted inside a timer thread / task: no caller to report to, judged by the final observation only
        o = obs_after.get(e["op"])
        if o is None:
            continue
        sig = dict(sig0, exc=e["exc"])
        if tuple(sorted(e["before"])) != tuple(o[6]["cfg"]):
            # only comparable when nothing else happened in that op after the rollback
            later = [x for x in res.trace if x[SEQ] > e["seq"] and x[SEQ] < o[SEQ] and x[K] == "trans" and x[4] == root]
            if not later:
                vios.append(Violation("C07", "rollback-configuration", sig,
                                      f"transition aborted with {e['exc']}: configuration after {list(o[6]['cfg'])} != configuration before the transition {sorted(e['before'])}"))
                continue
        ret = w.ops_ret.get(e["op"])
        if sc["engine"] == "sync":
            if ret is None or not (isinstance(ret[6], tuple) and ret[6][0] == "exc"):
                vios.append(Violation("C07", "abort-not-reported", sig, f"sync: aborted transition ({e['exc']}) but send() returned {ret[6] if ret else None}"))
            elif not ret[6][2]:
                vios.append(Violation("C07", "abort-not-library-error", dict(sig, during="send"),
                                      f"sync send() raised {ret[6][1]} which is not an XStateMachineError"))
        else:
            logged = any(x[K] == "log" and x[SEQ] > e["seq"] and "Error processing event" in (x[7] or "") for x in res.trace)
            if not logged:
                vios.append(Violation("C07", "abort-not-reported", sig, f"async: aborted transition ({e['exc']}) but no error was logged by the run loop"))
        if o[6]["status"] != "running":
            vios.append(Violation("C07", "abort-stopped-interpreter", sig, f"after the aborted transition status is {o[6]['status']}"))
        # re-armed timers: states restored by the rollback that own an unguarded after must still time out
        if fin is not None and fin["status"] == "running":
            end_t = [x for x in w.obs if x[4] == "final"][-1][T]
            for sid in e["before"]:
                n = m.node(sid)
                if n is None or not n.after:
                    continue
                later_exit = any(x[K] == "act" and x[4] == root and x[5] == "ex." + sid and x[SEQ] > e["seq"] for x in res.trace)
                if later_exit:
                    continue
                for dkey, cands in n.after.items():
                    try:
                        d_us = int(dkey) * 1000
                    except ValueError:
                        continue
                    if any(c.guard is not None for c in cands):
                        continue
                    if e["t"] + d_us + 200_000 >= end_t:
                        continue
                    # a later rollback that cancels and re-arms the same state before this deadline restarts the delay
                    # (it is judged on its own); repeated aborts may legitimately postpone the expiry for ever
                    if any(e2["seq"] > e["seq"] and sid in e2["before"] and e2["t"] <= e["t"] + d_us for e2 in errors):
                        continue
                    # re-armed = the expiry is delivered again (the transition it drives may abort again)
                    fired = any(x[K] == "recv" and x[4] == root and x[5] == f"after.{dkey}.{sid}" and x[SEQ] > e["seq"] for x in res.trace)
                    # exited by the aborted transition itself (an earlier exit belongs to an earlier activation, whose
                    # timer may already have fired)
                    was_exited_by_abort = any(x[K] == "act" and x[4] == root and x[5] == "ex." + sid and e["seq0"] <= x[SEQ] < e["seq"]
                                              for x in res.trace)
                    if not fired and was_exited_by_abort:
                        vios.append(Violation("C07", "rollback-timer-not-rearmed", sig,
                                              f"{sid} was exited and restored by the rollback at {e['t']}us but its after {dkey} never fired by {end_t}us"))
    # general liveness: every state active at the end that owns an unguarded after must have had its expiry delivered
    # since it was last (re-)armed (entry, or a rollback that restored it) - whether or not its own exit action had run
    # when the transition aborted (the whole exit set is cancelled up front and must be re-armed)
    if fin is not None and fin["status"] == "running" and errors:
        end_t = [x for x in w.obs if x[4] == "final"][-1][T]
        last_rb = max(e["t"] for e in errors)
        for sid in fin["cfg"]:
            n = m.node(sid)
            if n is None or not n.after:
                continue
            acts = w.activations.get(sid, [])
            t_in = acts[-1].t_in if acts else 0
            seq_in = acts[-1].seq_in if acts else 0
            for dkey, cands in n.after.items():
                try:
                    d_us = int(dkey) * 1000
                except ValueError:
                    continue
                if any(c.guard is not None for c in cands):
                    continue
                if max(t_in, last_rb) + d_us + 200_000 >= end_t:
                    continue
                got = any(x[K] == "recv" and x[4] == root and x[5] == f"after.{dkey}.{sid}" and x[SEQ] > seq_in for x in res.trace)
                if not got:
                    vios.append(Violation("C07", "timer-dead-after-rollback", sig0,
                                          f"{sid} active since {t_in}us (last rollback at {last_rb}us) never had its after {dkey} delivered by {end_t}us"))
    # later events are still processed
    last_err_op = max([e["op"] for e in errors if e["op"] is not None], default=None)
    if last_err_op is not None and fin is not None and fin["status"] == "running":
        later_sends = [i for i, op in enumerate(sc["ops"]) if i > last_err_op and op.get("op") == "send"]
        for i in later_sends:
            call = w.ops_call.get(i)
            if call is None:
                continue
            got = any(x[K] == "recv" and x[4] == root and x[6] == sc["ops"][i].get("tag") for x in res.trace)
            if not got:
                vios.append(Violation("C07", "event-after-abort-not-processed", sig0, f"event of op {i} sent after the aborted transition was never received"))
                break
    res.meta["c07_aborts"] = len(errors)
    return [res], vios


def stats_c07(sc, res):
    s = {}
    for k, v in (res.meta.get("c07_tested") or {}).items():
        s["fault_" + k] = v
    if "c07_positions" in res.meta:
        s["fault_positions_enumerated"] = res.meta["c07_positions"]
    if "c07_aborts" in res.meta:
        s["aborted_transitions"] = res.meta["c07_aborts"]
    return s
