"""Self-tests: `vcheck selftest seeded [ids...]`, `vcheck selftest determinism [n]`."""
from __future__ import annotations

import json
import os
import shutil
import subprocess
import sys
import time

VERIF = os.path.dirname(os.path.dirname(os.path.abspath(__file__)))
REPO = os.environ.get("VERIF_REPO_ROOT", "/repo")


def seeded(ids, tier="quick", seeds=("1",)):
    base = os.path.join(VERIF, "seeded")
    names = ids or sorted(d for d in os.listdir(base) if os.path.isdir(os.path.join(base, d)))
    report = []
    rc_all = 0
    for name in names:
        d = os.path.join(base, name)
        meta = json.load(open(os.path.join(d, "meta.json")))
        if meta.get("not_detected_reason"):
            report.append({"id": name, "property": meta["property"], "caught": False, "checks": {},
                           "not_detected_reason": meta["not_detected_reason"]})
            print(f"{name}: NOT-DETECTED (documented: outside what the property states)")
            continue
        props = meta.get("detected_by") or [meta["property"]]
        scratch = f"/tmp/xsim_seeded_{name}_{os.getpid()}"
        shutil.rmtree(scratch, ignore_errors=True)
        os.makedirs(scratch)
        try:
            shutil.copytree(os.path.join(REPO, "src"), os.path.join(scratch, "src"))
            p = subprocess.run(["patch", "-p1", "-s", "-i", os.path.join(d, "patch.diff")], cwd=scratch, capture_output=True, text=True)
            if p.returncode != 0:
                report.append({"id": name, "error": "patch does not apply: " + (p.stdout + p.stderr)[-300:]})
                print(f"{name}: ERROR patch does not apply to the current tree")
                rc_all = 2
                continue
            env = dict(os.environ, VERIF_REPO_SRC=os.path.join(scratch, "src"), VERIF_OUT=os.path.join(scratch, "out"))
            row = {"id": name, "property": meta["property"], "checks": {}}
            caught = False
            for prop in props:
                for s in seeds:
                    env["VERIF_SEED"] = s
                    t0 = time.time()
                    q = subprocess.run([os.path.join(VERIF, "vcheck"), prop, tier], cwd=VERIF, env=env, capture_output=True, text=True)
                    rules = sorted({ln.split("rule=")[1].split(" ")[0] for ln in q.stdout.splitlines() if "rule=" in ln})
                    row["checks"][f"{prop}@seed{s}"] = {"exit": q.returncode, "rules": rules, "wall_s": round(time.time() - t0, 1)}
                    if q.returncode == 1:
                        caught = True
                    if q.returncode == 2:
                        row["checks"][f"{prop}@seed{s}"]["harness"] = q.stdout[-400:]
            row["caught"] = caught
            report.append(row)
            print(f"{name}: {'CAUGHT' if caught else 'MISSED'} {row['checks']}")
            if not caught:
                rc_all = max(rc_all, 1)
        finally:
            shutil.rmtree(scratch, ignore_errors=True)
    path = os.path.join(VERIF, "mutation_report.json")
    try:
        old = json.load(open(path))
    except Exception:
        old = []
    merged = {r["id"]: r for r in old}
    merged.update({r["id"]: r for r in report})
    with open(path, "w") as f:
        json.dump([merged[k] for k in sorted(merged)], f, indent=1)
    return rc_all


def determinism(n):
    from .check import REGISTRY, determinism_selftest
    from . import families  # noqa: F401
    bad = 0
    for prop in sorted(REGISTRY):
        ok, why = determinism_selftest(prop, n=n)
        print(prop, "ok" if ok else "FAILED " + why)
        bad += 0 if ok else 1
    return 2 if bad else 0


def main(argv):
    if argv and argv[0] == "seeded":
        seeds = tuple((os.environ.get("VERIF_SELFTEST_SEEDS") or "1").split(","))
        return seeded(argv[1:], seeds=seeds)
    if argv and argv[0] == "determinism":
        return determinism(int(argv[1]) if len(argv) > 1 else 40)
    print("usage: vcheck selftest seeded [ids...] | determinism [n]")
    return 2
