"""Check framework: seeded batches over families, oracles, shrinking, replay,
known-findings matching, evidence files, exit codes.

exit 0 = held on everything explored (KNOWN-FINDING lines allowed)
exit 1 = at least one unlisted violation (VIOLATION line + verified replay)
exit 2 = harness error (never a verdict)
"""
from __future__ import annotations

import copy
import faulthandler
import glob
import signal
import hashlib
import json
import multiprocessing
import os
import random
import subprocess
import sys
import time
import traceback
from concurrent.futures import ProcessPoolExecutor, as_completed

VERIF = os.path.dirname(os.path.dirname(os.path.abspath(__file__)))
# VERIF_OUT redirects what a run writes (replays, evidence): the seeded-change self-test runs the checks
# against patched scratch trees and must not overwrite the evidence of /repo itself
_OUT = os.environ.get("VERIF_OUT") or VERIF
REPLAYS = os.path.join(_OUT, "replays")
EVIDENCE = os.path.join(_OUT, "evidence")
KNOWN = os.path.join(VERIF, "known_findings.json")
PY = "/venv/bin/python"

# property id -> dict(families=[(name, weight, genfn)], oracle=fn, nontrivial=fn, level=..., rule=...)
REGISTRY = {}


def register(prop, **kw):
    REGISTRY[prop] = kw


def trace_hash(trace):
    h = hashlib.sha256()
    for r in trace:
        h.update(repr(r).encode())
        h.update(b"\n")
    return h.hexdigest()


def sched_projection(trace):
    """Projection used to count distinct interleavings: who did what, in which order."""
    h = hashlib.sha256()
    n = 0
    for r in trace:
        k = r[3]
        if k in ("recv", "trans", "svc-end", "op-call", "fault"):
            h.update(repr((k, r[2] if k != "op-call" else None) + tuple(r[4:8])).encode())
            n += 1
    return h.hexdigest()[:24], n


# ---------------------------------------------------------------------------
def load_known():
    try:
        with open(KNOWN) as f:
            return json.load(f)
    except FileNotFoundError:
        return []


def match_known(v, known):
    for e in known:
        if e.get("status") != "known":
            continue
        if e.get("property") != v.prop or e.get("rule") != v.rule:
            continue
        sig = e.get("signature") or {}
        if all(v.sig.get(k) == val for k, val in sig.items()):
            return e
    return None


# ---------------------------------------------------------------------------
def run_one(prop, family, seed):
    """Generate + execute + judge one scenario.  Returns (scenario, result, violations)."""
    from . import families  # noqa: F401  (registers)
    reg = REGISTRY[prop]
    gen = dict((n, g) for n, _w, g in reg["families"])[family]
    sc = gen(seed)
    sc.setdefault("property", prop)
    sc.setdefault("family", family)
    sc.setdefault("seed", seed)
    return judge(prop, sc)


def judge(prop, sc):
    from . import families  # noqa: F401
    reg = REGISTRY[prop]
    runner = reg.get("runner")
    if runner is not None:
        res, vios = runner(sc)
    else:
        from .execs import execute
        res = execute(sc)
        vios = reg["oracle"](sc, res) if not res.meta.get("harness_error") else []
        if res.meta.get("abort") and not reg.get("judges_aborted_runs"):
            # a run cut by a harness budget (threads, hooks, lines) is unwound through the repository's code by a
            # BaseException: what it leaves behind is not a verdict on the property (C13 alone judges such runs)
            vios = []
    return sc, res, vios


SCENARIO_WALL_S = int(os.environ.get("VERIF_SCENARIO_WALL", "120"))


class ScenarioHang(BaseException):
    pass


def _on_alarm(signum, frame):
    try:
        faulthandler.dump_traceback(all_threads=True)  # which simulated thread holds the baton, and where
    except Exception:
        pass
    raise ScenarioHang(f"scenario exceeded {SCENARIO_WALL_S}s of real time (no simulated budget stopped it)")


def _worker(args):
    prop, family, seeds, budget_s, want_samples = args
    faulthandler.enable()
    t0 = time.time()
    out = {"family": family, "runs": 0, "harness_errors": [], "violations": [], "hashes": {}, "nontrivial": 0,
           "vtime_us": 0, "stats": {}, "samples": [], "aborts": 0, "seeds_done": []}
    reg = None
    for seed in seeds:
        if time.time() - t0 > budget_s:
            break
        try:
            signal.signal(signal.SIGALRM, _on_alarm)
            # (a C07 / C12 / C16 "scenario" is dozens of executions)
            signal.alarm(SCENARIO_WALL_S * int(REGISTRY.get(prop, {}).get("scenario_wall_factor", 1)))
            try:
                sc, res, vios = run_one(prop, family, seed)
            finally:
                signal.alarm(0)
        except BaseException as e:  # harness failure, never a verdict
            out["harness_errors"].append((seed, f"{type(e).__name__}: {e}", traceback.format_exc()[-1200:]))
            continue
        if reg is None:
            reg = REGISTRY[prop]
        out["runs"] += 1
        out["seeds_done"].append(seed)
        metas = res if isinstance(res, list) else [res]
        out["execs"] = out.get("execs", 0) + len(metas)
        for r in metas:
            if r.meta.get("harness_error"):
                out["harness_errors"].append((seed, r.meta["harness_error"][:300], ""))
            if r.meta.get("abort"):
                out["aborts"] += 1
            out["vtime_us"] += int(r.meta.get("vtime_us", 0) or 0)
            hp, n = sched_projection(r.trace)
            nt = reg["nontrivial"](sc, r) if "nontrivial" in reg else n >= 3
            if nt:
                out["hashes"][hp] = 1
            for k, v in (reg["stats"](sc, r) if "stats" in reg else {}).items():
                out["stats"][k] = out["stats"].get(k, 0) + v
        if want_samples and len(out["samples"]) < 2 and out["runs"] % 7 == 1:
            out["samples"].append(abbreviate(sc, metas[0]))
        for v in vios:
            if len(out["violations"]) < 40:
                out["violations"].append((seed, v.to_json(), sc))
    return out


def abbreviate(sc, res):
    tr = []
    for r in res.trace:
        if r[3] in ("recv", "trans", "op-call", "svc-end", "fault"):
            tr.append([r[0], r[1], r[2], r[3]] + [x if isinstance(x, (str, int, type(None), bool)) else str(x)[:60] for x in r[4:8]])
        if len(tr) >= 25:
            break
    states = []

    def walk(c, pfx):
        for k, v in (c.get("states") or {}).items():
            states.append(f"{pfx}.{k}:{v.get('type', 'compound' if 'states' in v else 'atomic')}")
            walk(v, f"{pfx}.{k}")
    walk(sc["machine"], sc["machine"]["id"])
    return {"seed": sc.get("seed"), "family": sc.get("family"), "engine": sc.get("engine"),
            "states": states[:20], "ops": [(o.get("op"), o.get("event"), o.get("t", o.get("dt"))) for o in (sc.get("ops") or [])[:20]],
            "sched": sc.get("sched"), "faults": sc.get("faults"), "trace_head": tr}


# ---------------------------------------------------------------------------
# shrinking
def _vio_matches(vios, target):
    for v in vios:
        if v.prop == target["property"] and v.rule == target["rule"] and all(
                v.sig.get(k) == val for k, val in (target.get("signature") or {}).items()):
            return v
    return None


def shrink(prop, sc, target, budget=250, wall=90):
    """Delta-debug the scenario keeping the same (property, rule, signature)."""
    t0 = time.time()
    used = [0]

    def ok(cand):
        if used[0] >= budget or time.time() - t0 > wall:
            return False
        used[0] += 1
        try:
            _sc, res, vios = judge(prop, copy.deepcopy(cand))
        except BaseException:
            return False
        rs = res if isinstance(res, list) else [res]
        if any(r.meta.get("harness_error") for r in rs):
            return False
        return _vio_matches(vios, target) is not None

    cur = copy.deepcopy(sc)
    # 1. ops: drop chunks then single ops
    def drop_ops(cur):
        ops = cur.get("ops") or []
        n = len(ops)
        chunk = max(1, n // 2)
        while chunk >= 1:
            i = 0
            while i < len(cur["ops"]):
                cand = copy.deepcopy(cur)
                seg = cand["ops"][i:i + chunk]
                if any(o.get("op") == "start" for o in seg):
                    i += 1
                    continue
                del cand["ops"][i:i + chunk]
                if cand["ops"] and ok(cand):
                    cur = cand
                else:
                    i += chunk
            chunk //= 2
        return cur
    if cur.get("ops"):
        cur = drop_ops(cur)
    # 2. faults / preempt points / schedule extras
    for key in ("faults",):
        lst = cur.get(key) or []
        for i in range(len(lst) - 1, -1, -1):
            cand = copy.deepcopy(cur)
            del cand[key][i]
            if ok(cand):
                cur = cand
    sched = cur.get("sched") or {}
    for pk in ("preempt", "preempt_lines"):
        if sched.get(pk):
            for i in range(len(sched[pk]) - 1, -1, -1):
                cand = copy.deepcopy(cur)
                del cand["sched"][pk][i]
                if ok(cand):
                    cur = cand
    for k in ("late", "noise"):
        if (cur.get("sched") or {}).get(k):
            cand = copy.deepcopy(cur)
            cand["sched"].pop(k)
            if ok(cand):
                cur = cand
    # 3. machine: remove transitions / extra actions / states
    if REGISTRY[prop].get("shrink_machine", True):
        cur = _shrink_machine(cur, ok)
    if cur.get("ops"):
        cur = drop_ops(cur)
    return cur, used[0]


def _state_paths(cfg, path=()):
    for k in list((cfg.get("states") or {}).keys()):
        yield path + (k,)
        yield from _state_paths(cfg["states"][k], path + (k,))


def _get_state(cfg, path):
    c = cfg
    for k in path:
        c = c["states"][k]
    return c


def _shrink_machine(cur, ok):
    mid = cur["machine"]["id"]
    # drop whole states (deepest first)
    paths = sorted(_state_paths(cur["machine"]), key=lambda p: -len(p))
    for p in paths:
        cand = copy.deepcopy(cur)
        try:
            parent = _get_state(cand["machine"], p[:-1])
        except KeyError:
            continue
        if p[-1] not in (parent.get("states") or {}):
            continue
        sid = ".".join((mid,) + p)
        if parent.get("initial") == p[-1]:
            continue
        del parent["states"][p[-1]]
        if not parent["states"]:
            continue
        _strip_targets(cand["machine"], "#" + sid)
        if ok(cand):
            cur = cand
    # drop transitions and non-marker actions
    for p in [()] + sorted(_state_paths(cur["machine"])):
        for field in ("on", "after"):
            try:
                st = _get_state(cur["machine"], p)
            except KeyError:
                break
            for ev in list((st.get(field) or {}).keys()):
                cand = copy.deepcopy(cur)
                s2 = _get_state(cand["machine"], p)
                del s2[field][ev]
                if not s2[field]:
                    del s2[field]
                if ok(cand):
                    cur = cand
                    continue
                v = _get_state(cur["machine"], p)[field][ev]
                if isinstance(v, list) and len(v) > 1:
                    for i in range(len(v) - 1, -1, -1):
                        cand = copy.deepcopy(cur)
                        lst = _get_state(cand["machine"], p)[field][ev]
                        if len(lst) <= 1:
                            break
                        del lst[i]
                        if ok(cand):
                            cur = cand
        for field in ("always", "onDone", "invoke"):
            try:
                st = _get_state(cur["machine"], p)
            except KeyError:
                break
            if field in st:
                cand = copy.deepcopy(cur)
                del _get_state(cand["machine"], p)[field]
                if ok(cand):
                    cur = cand
        for field in ("entry", "exit"):
            try:
                st = _get_state(cur["machine"], p)
            except KeyError:
                break
            lst = st.get(field)
            if isinstance(lst, list) and len(lst) > 1:
                cand = copy.deepcopy(cur)
                _get_state(cand["machine"], p)[field] = lst[:1]
                if ok(cand):
                    cur = cand
    return cur


def _strip_targets(cfg, prefix):
    """Remove transitions that target the removed subtree."""
    def bad(t):
        return isinstance(t, dict) and isinstance(t.get("target"), str) and (
            t["target"] == prefix or t["target"].startswith(prefix + "."))

    def clean_list(v):
        if isinstance(v, dict):
            return None if bad(v) else v
        if isinstance(v, list):
            out = [x for x in v if not bad(x)]
            return out or None
        return v
    for field in ("on", "after"):
        d = cfg.get(field)
        if isinstance(d, dict):
            for k in list(d.keys()):
                nv = clean_list(d[k])
                if nv is None and d[k] is not None:
                    del d[k]
                else:
                    d[k] = nv
            if not d:
                del cfg[field]
    for field in ("always", "onDone"):
        if field in cfg:
            nv = clean_list(cfg[field])
            if nv is None:
                del cfg[field]
            else:
                cfg[field] = nv
    inv = cfg.get("invoke")
    if isinstance(inv, dict):
        for f in ("onDone", "onError"):
            if f in inv:
                nv = clean_list(inv[f])
                if nv is None:
                    del inv[f]
                else:
                    inv[f] = nv
    if cfg.get("type") == "history" and isinstance(cfg.get("target"), str) and (
            cfg["target"] == prefix or cfg["target"].startswith(prefix + ".")):
        del cfg["target"]
    for c in (cfg.get("states") or {}).values():
        _strip_targets(c, prefix)


# ---------------------------------------------------------------------------
def replay_file(path):
    """Re-execute a replay file; returns (reproduced: bool, violations, harness_error)."""
    with open(path) as f:
        doc = json.load(f)
    prop = doc["property"]
    sc = doc["scenario"]
    target = doc["expect"]
    if doc.get("twice"):
        # the same scenario executed twice in this process must give the same trace
        # (what differs between the executions is only the heap layout, i.e. the addresses of the objects created for
        # each of them; up to six executions, with some allocations kept alive in between, so that a dependence on
        # addresses that showed once shows again in this process)
        from .tracewalk import Violation
        hs, keep = [], []
        for rep in range(6):
            hs.append(scenario_hashes(path))
            if len(set(hs)) > 1:
                return True, [Violation(prop, target["rule"], target["signature"], doc.get("message") or "")], []
            keep.append([(lambda j=j: j) for j in range(37 * (rep + 1))][::2])
        return False, [], []
    if doc.get("xproc"):
        # cross-process determinism: the same scenario in fresh interpreters that differ only in PYTHONHASHSEED
        outs = [scenario_hashes_fresh(path, hs) for hs in doc["xproc"]["hashseeds"]]
        bad = [o for o in outs if o[0] is None]
        if bad:
            return False, [], [bad[0][1]]
        from .tracewalk import Violation
        if len({o[0] for o in outs}) > 1:
            return True, [Violation(prop, target["rule"], target["signature"], doc.get("message") or "")], []
        return False, [], []
    _sc, res, vios = judge(prop, copy.deepcopy(sc))
    rs = res if isinstance(res, list) else [res]
    herr = [r.meta["harness_error"] for r in rs if r.meta.get("harness_error")]
    v = _vio_matches(vios, target)
    return v is not None, vios, herr


def scenario_hashes(path):
    with open(path) as f:
        doc = json.load(f)
    _sc, res, _v = judge(doc["property"], copy.deepcopy(doc["scenario"]))
    rs = res if isinstance(res, list) else [res]
    return "|".join(trace_hash(r.trace) for r in rs if r.scenario.get("hash_mode") != "address")


def scenario_hashes_fresh(path, hashseed):
    env = dict(os.environ)
    env["PYTHONHASHSEED"] = str(hashseed)
    env["PYTHONPATH"] = VERIF + ":" + os.environ.get("VERIF_REPO_SRC", "/repo/src")
    p = subprocess.run([PY, "-m", "xsim.cli", "hashsc", path], cwd=VERIF, env=env, capture_output=True, text=True, timeout=180)
    if p.returncode != 0:
        return None, "hashsc failed: " + p.stderr[-600:]
    return p.stdout.strip().splitlines()[-1], None


def verify_replay_fresh(path):
    """Run the replay in a fresh interpreter process."""
    env = dict(os.environ)
    env["PYTHONHASHSEED"] = "0"
    env["PYTHONPATH"] = VERIF + ":" + os.environ.get("VERIF_REPO_SRC", "/repo/src")
    p = subprocess.run([PY, "-m", "xsim.cli", "replay", path], cwd=VERIF, env=env, capture_output=True, text=True, timeout=180)
    return p.returncode == 1, p.stdout[-2000:] + p.stderr[-2000:]


def write_replay(prop, v_json, sc, seed, suffix=""):
    os.makedirs(REPLAYS, exist_ok=True)
    name = f"{prop}-{v_json['rule']}-{sc.get('family', 'x')}-{seed}{suffix}.json"
    path = os.path.join(REPLAYS, name)
    doc = {"format": 1, "property": prop, "expect": {"property": prop, "rule": v_json["rule"], "signature": v_json["signature"]},
           "message": v_json.get("message"), "detail": v_json.get("detail"), "scenario": sc}
    with open(path, "w") as f:
        json.dump(doc, f, indent=1, default=str)
    return path


# ---------------------------------------------------------------------------
def determinism_selftest(prop, n=12, fresh=True):
    """Same seed twice in-process, and once in a fresh interpreter with another PYTHONHASHSEED."""
    from . import families  # noqa: F401
    reg = REGISTRY[prop]
    fams = [f[0] for f in reg["families"]]
    mine = {}
    for i in range(n):
        fam = fams[i % len(fams)]
        seed = 900_000 + i
        hs = []
        for _rep in range(2):
            sc, res, _v = run_one(prop, fam, seed)
            rs = res if isinstance(res, list) else [res]
            hs.append("|".join(trace_hash(r.trace) for r in rs if r.scenario.get("hash_mode") != "address"))
        if hs[0] != hs[1]:
            return False, f"in-process divergence prop={prop} family={fam} seed={seed}"
        mine[f"{fam}:{seed}"] = hs[0]
    if fresh:
        env = dict(os.environ)
        env["PYTHONHASHSEED"] = "12345"
        env["PYTHONPATH"] = VERIF + ":" + os.environ.get("VERIF_REPO_SRC", "/repo/src")
        p = subprocess.run([PY, "-m", "xsim.cli", "hashes", prop, str(n)], cwd=VERIF, env=env, capture_output=True, text=True, timeout=300)
        if p.returncode != 0:
            return False, "fresh-interpreter hash run failed: " + p.stderr[-500:]
        theirs = json.loads(p.stdout.strip().splitlines()[-1])
        for k, v in mine.items():
            if theirs.get(k) != v:
                return False, f"fresh-interpreter divergence at {k}"
    return True, "ok"


def xproc_violation(prop, why):
    """C16 only: a trace that differs between interpreters differing only in PYTHONHASHSEED *is* the property's
    violation (every other property's check runs the same harness through the same self-test, which shows the
    harness itself does not depend on the hash seed).  Returns the replay path, or None if it does not reproduce."""
    inproc = why.startswith("in-process divergence")
    if inproc:
        # "in-process divergence prop=C16 family=det_sync seed=900000"
        parts = dict(x.split("=", 1) for x in why.split() if "=" in x)
        fam, seed = parts["family"], parts["seed"]
    else:
        key = why.rsplit(" ", 1)[-1]
        fam, seed = key.rsplit(":", 1)
    reg = REGISTRY[prop]
    gen = dict((n, g) for n, _w, g in reg["families"])[fam]
    sc = gen(int(seed))
    sc.setdefault("property", prop)
    sc.setdefault("family", fam)
    sc.setdefault("seed", int(seed))
    if inproc:
        vj = {"property": prop, "rule": "trace-differs-between-identical-runs", "signature": {"family": fam},
              "message": f"{fam} seed {seed}: the same scenario executed twice in one process (same salts, fresh machine objects) "
                         f"gave two different traces"}
    else:
        vj = {"property": prop, "rule": "trace-depends-on-hash-seed", "signature": {"family": fam},
              "message": f"{fam} seed {seed}: the recorded trace differs between two fresh interpreters that differ only in PYTHONHASHSEED"}
    os.makedirs(REPLAYS, exist_ok=True)
    path = os.path.join(REPLAYS, f"{prop}-{vj['rule']}-{fam}-{seed}.json")
    doc = {"format": 1, "property": prop, "expect": {"property": prop, "rule": vj["rule"], "signature": vj["signature"]},
           "message": vj["message"], "scenario": sc}
    if inproc:
        doc["twice"] = True
    else:
        doc["xproc"] = {"hashseeds": [0, 12345]}
    with open(path, "w") as f:
        json.dump(doc, f, indent=1, default=str)
    ok, _out = verify_replay_fresh(path)
    return (path, vj) if ok else (None, vj)


def hashes_for(prop, n):
    from . import families  # noqa: F401
    reg = REGISTRY[prop]
    fams = [f[0] for f in reg["families"]]
    out = {}
    for i in range(n):
        fam = fams[i % len(fams)]
        seed = 900_000 + i
        sc, res, _v = run_one(prop, fam, seed)
        rs = res if isinstance(res, list) else [res]
        out[f"{fam}:{seed}"] = "|".join(trace_hash(r.trace) for r in rs if r.scenario.get("hash_mode") != "address")
    return out


# ---------------------------------------------------------------------------
TIERS = {"quick": {"wall": 55, "runs": 6000}, "thorough": {"wall": 600, "runs": 400000}}


def run_check(prop, tier="quick", seed=1, workers=None, wall=None, max_runs=None, selftest=True):
    from . import families  # noqa: F401
    t_start = time.time()
    reg = REGISTRY[prop]
    workers = workers or min(16, os.cpu_count() or 4)
    cfg = dict(TIERS[tier])
    cfg.update(reg.get("tiers", {}).get(tier, {}))
    if wall:
        cfg["wall"] = wall
    if max_runs:
        cfg["runs"] = max_runs
    known = load_known()
    from . import gen as _gen
    _gen.SCALE["v"] = 1.6 if tier == "thorough" else 1.0
    os.environ["VERIF_SCALE"] = str(_gen.SCALE["v"])
    pre_violations = []
    if selftest:
        n_self = (8 if tier == "quick" else 24) * int(reg.get("selftest_scale", 1))
        ok, why = determinism_selftest(prop, n=n_self)
        if not ok and reg.get("xproc_is_violation") and why.startswith(("fresh-interpreter divergence at ", "in-process divergence")):
            path, vj = xproc_violation(prop, why)
            if path is None:
                print(f"HARNESS-ERROR determinism self-test failed and did not reproduce: {why}")
                return 2
            pre_violations.append((path, vj))
        elif not ok:
            print(f"HARNESS-ERROR determinism self-test failed: {why}")
            return 2
    # regression corpus: replays of defects that were repaired (findings/fixed-<prop>-*.json) must stay fixed
    corpus = sorted(glob.glob(os.path.join(VERIF, "findings", f"fixed-{prop}-*.json")))
    corpus_ran = 0
    for path in corpus:
        try:
            signal.signal(signal.SIGALRM, _on_alarm)
            signal.alarm(SCENARIO_WALL_S)
            try:
                rep, _vios, herr = replay_file(path)
            finally:
                signal.alarm(0)
        except BaseException as e_:
            print(f"HARNESS-ERROR regression replay {path} failed: {type(e_).__name__}: {e_}")
            return 2
        if herr:
            print(f"HARNESS-ERROR regression replay {path}: {herr[0][:600]}")
            return 2
        corpus_ran += 1
        if rep:
            with open(path) as f_:
                exp = json.load(f_)["expect"]
            pre_violations.append((path, {"property": exp["property"], "rule": exp["rule"], "signature": exp["signature"],
                                          "message": "a repaired defect has returned (regression corpus replay reproduces)"}))
    fams = reg["families"]
    totw = sum(w for _n, w, _g in fams)
    chunks = []
    base = seed * 10_000_000
    per_chunk = int(reg.get("chunk", 60))
    for fi, (name, w, _g) in enumerate(fams):
        nruns = max(1, int(cfg["runs"] * w / totw))
        s0 = base + fi * 1_000_000
        k = 0
        while k < nruns:
            chunks.append((prop, name, list(range(s0 + k, s0 + min(nruns, k + per_chunk))), cfg["wall"] * 0.9, True))
            k += per_chunk
    # interleave families so a wall-clock cut keeps the mix
    chunks.sort(key=lambda c: c[2][0] % 1_000_000)
    agg = {"runs": 0, "harness_errors": [], "violations": [], "hashes": {}, "vtime_us": 0, "stats": {}, "samples": [],
           "aborts": 0, "by_family": {}}
    deadline = t_start + cfg["wall"]
    ctx = multiprocessing.get_context("fork")
    with ProcessPoolExecutor(max_workers=workers, mp_context=ctx) as ex:
        futs = []
        it = iter(chunks)
        pending = set()

        def submit_more():
            while len(pending) < workers * 2:
                try:
                    c = next(it)
                except StopIteration:
                    return
                if time.time() > deadline:
                    return
                f = ex.submit(_worker, (c[0], c[1], c[2], max(5.0, deadline - time.time()), c[4]))
                pending.add(f)
        submit_more()
        while pending:
            done = None
            try:
                for f in as_completed(list(pending), timeout=max(30.0, cfg["wall"] * 2)):
                    done = f
                    break
            except Exception as e:
                print(f"HARNESS-ERROR worker wait failed: {e}")
                for f in pending:
                    f.cancel()
                for p_ in list(getattr(ex, "_processes", {}).values()):
                    try:
                        p_.kill()
                    except Exception:
                        pass
                ex.shutdown(wait=False, cancel_futures=True)
                return 2
            pending.discard(done)
            try:
                out = done.result()
            except BaseException as e:
                print(f"HARNESS-ERROR worker died: {type(e).__name__}: {e}")
                return 2
            agg["runs"] += out["runs"]
            agg["execs"] = agg.get("execs", 0) + out.get("execs", 0)
            agg["aborts"] += out["aborts"]
            agg["harness_errors"].extend(out["harness_errors"])
            agg["violations"].extend(out["violations"])
            agg["hashes"].update(out["hashes"])
            agg["vtime_us"] += out["vtime_us"]
            agg["by_family"][out["family"]] = agg["by_family"].get(out["family"], 0) + out["runs"]
            for k, v in out["stats"].items():
                agg["stats"][k] = agg["stats"].get(k, 0) + v
            if len(agg["samples"]) < 3:
                agg["samples"].extend(out["samples"][: 3 - len(agg["samples"])])
            submit_more()
    wall_s = time.time() - t_start
    if agg["harness_errors"]:
        for seed_, msg, tb in agg["harness_errors"][:5]:
            print(f"HARNESS-ERROR seed={seed_} {msg}\n{tb}")
        return 2
    # group violations by key, classify
    groups = {}
    from .tracewalk import Violation
    for seed_, vj, sc in agg["violations"]:
        key = (vj["property"], vj["rule"], json.dumps(vj["signature"], sort_keys=True))
        groups.setdefault(key, []).append((seed_, vj, sc))
    exit_code = 0
    known_seen = {}
    new_violations = 0
    for path, vj in pre_violations:
        e = match_known(Violation(vj["property"], vj["rule"], vj["signature"], vj["message"]), known)
        if e is not None:
            known_seen[e["id"]] = known_seen.get(e["id"], 0) + 1
            continue
        new_violations += 1
        exit_code = 1
        print(f"VIOLATION property={prop} replay={path}")
        print(f"  rule={vj['rule']} signature={json.dumps(vj['signature'], sort_keys=True)}")
        print(f"  {vj['message']}")
    for key, lst in sorted(groups.items()):
        seed_, vj, sc = lst[0]
        v = Violation(vj["property"], vj["rule"], vj["signature"], vj.get("message", ""))
        e = match_known(v, known)
        if e is not None:
            known_seen[e["id"]] = known_seen.get(e["id"], 0) + len(lst)
            continue
        # shrink + replay (unlisted violation)
        target = {"property": vj["property"], "rule": vj["rule"], "signature": vj["signature"]}
        try:
            small, used = shrink(prop, sc, target)
        except BaseException as ex_:
            small, used = sc, -1
            print(f"NOTE shrink failed: {ex_}")
        path = write_replay(prop, vj, small, seed_)
        ok, out = verify_replay_fresh(path)
        if not ok:
            # fall back to the unshrunk scenario
            path = write_replay(prop, vj, sc, seed_, suffix="-full")
            ok, out = verify_replay_fresh(path)
        if not ok:
            print(f"HARNESS-ERROR violation {vj['rule']} seed={seed_} did not reproduce in a fresh process:\n{out[-800:]}")
            return 2
        new_violations += 1
        exit_code = 1
        print(f"VIOLATION property={prop} replay={path}")
        print(f"  rule={vj['rule']} signature={json.dumps(vj['signature'], sort_keys=True)} seeds={[s for s, _v, _s in lst[:5]]} count={len(lst)}")
        print(f"  {vj.get('message', '')}")
    # a listed finding the exploration of this run did not happen to meet is shown from its committed replay
    for e in known:
        if e.get("status") == "known" and e.get("property") == prop and e["id"] not in known_seen and e.get("replay"):
            rp = os.path.join(VERIF, e["replay"])
            try:
                rep_, _v, herr_ = replay_file(rp)
            except BaseException as e_:  # noqa: BLE001
                print(f"NOTE known finding {e['id']}: replay could not be executed ({type(e_).__name__})")
                continue
            if rep_ and not herr_:
                known_seen[e["id"]] = 1
            else:
                print(f"NOTE known finding {e['id']} did not reproduce from {e['replay']} on this tree")
    for e in known:
        if e.get("status") == "known" and e.get("property") == prop and e["id"] in known_seen:
            print(f"KNOWN-FINDING: property={prop} {e['what']} (rule={e['rule']}, seen {known_seen[e['id']]}x this run, replay={e.get('replay')})")
    agg["stats"]["regression_corpus_replays"] = corpus_ran
    write_evidence(prop, tier, seed, reg, agg, wall_s, new_violations, known_seen)
    rate = agg["runs"] / max(wall_s, 1e-9) * 3600
    print(f"{prop} {tier}: scenarios={agg['runs']} executions={agg.get('execs', 0)} distinct_nontrivial={len(agg['hashes'])} vtime_s={agg['vtime_us']/1e6:.1f} "
          f"runs/h={rate:.0f} violations={new_violations} known_seen={sum(known_seen.values())} wall={wall_s:.1f}s")
    return exit_code


def write_evidence(prop, tier, seed, reg, agg, wall_s, violations, known_seen):
    os.makedirs(EVIDENCE, exist_ok=True)
    cov = {
        "evaluations": agg.get("execs", agg["runs"]),
        "scenarios": agg["runs"],
        "distinct_nontrivial": len(agg["hashes"]),
        "rule": reg.get("rule", ""),
        "samples": agg["samples"] or [{"note": "no sample captured"}],
        "runs_per_hour": int(agg["runs"] / max(wall_s, 1e-9) * 3600),
        "simulated_seconds": round(agg["vtime_us"] / 1e6, 3),
        "runs_by_family": agg["by_family"],
        "aborted_runs": agg["aborts"],
        "fault_and_reach_counters": agg["stats"],
        "known_findings_seen": known_seen,
        "components": reg.get("components", {
            "real": ["xstate_statemachine.* (models, resolver, factory, machine_logic, events, actions, base_interpreter, interpreter, sync_interpreter, task_manager, helpers, plugins)", "CPython asyncio tasks/futures/queues"],
            "stub": ["event-loop selector and clock (VLoop)", "threading.Thread/Event, time.sleep/monotonic, uuid.uuid4 as seen by repo modules", "all user logic (generated)", "logging handlers"]}),
        "exhaustive": False,
    }
    doc = {"property_id": prop, "tier": tier, "seed": int(seed), "level": reg.get("level", "exploration"),
           "coverage": cov, "assumptions": reg.get("assumptions", []), "wall_s": round(wall_s, 2), "violations": violations}
    with open(os.path.join(EVIDENCE, f"{prop}.json"), "w") as f:
        json.dump(doc, f, indent=1, default=str)
