"""CLI: python -m xsim.cli <cmd> ...   (use ./vcheck)"""
from __future__ import annotations

import json
import os
import sys


def main(argv):
    if not argv:
        print("usage: vcheck <Cxx> quick|thorough | replay <file> | selftest determinism|mutants | hashes <Cxx> <n>")
        return 2
    cmd = argv[0]
    if cmd == "replay":
        from .check import replay_file
        ok, vios, herr = replay_file(argv[1])
        if herr:
            print("HARNESS-ERROR", herr[0][:1500])
            return 2
        for v in vios:
            print("  violation:", v.prop, v.rule, json.dumps(v.sig, sort_keys=True), v.msg)
        if ok:
            print(f"REPRODUCED {argv[1]}")
            return 1
        print(f"NOT-REPRODUCED {argv[1]}")
        return 0
    if cmd == "hashsc":
        from .check import scenario_hashes
        print(scenario_hashes(argv[1]))
        return 0
    if cmd == "hashes":
        from .check import hashes_for
        print(json.dumps(hashes_for(argv[1], int(argv[2]))))
        return 0
    if cmd == "selftest":
        from . import selftest
        return selftest.main(argv[1:])
    if cmd == "one":
        # vcheck one C08 family seed  -> run one scenario verbosely
        from .check import run_one
        sc, res, vios = run_one(argv[1], argv[2], int(argv[3]))
        rs = res if isinstance(res, list) else [res]
        if "-v" in argv:
            print(json.dumps(sc, indent=1, default=str))
            for r in rs:
                for t in r.trace:
                    print(t)
        for r in rs:
            print(r.meta)
        for v in vios:
            print("VIO", v)
        return 1 if vios else 0
    prop = cmd
    tier = argv[1] if len(argv) > 1 else os.environ.get("VERIF_TIER", "quick")
    seed = int(os.environ.get("VERIF_SEED", "1"))
    from .check import run_check
    wall = os.environ.get("VERIF_WALL")
    return run_check(prop, tier, seed, wall=float(wall) if wall else None,
                     workers=int(os.environ.get("VERIF_WORKERS", "0")) or None)


if __name__ == "__main__":
    sys.exit(main(sys.argv[1:]))
