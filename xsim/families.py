"""Registration of properties: scenario families + oracles."""
from __future__ import annotations

import random

from .check import register
from .gen import MachineGen, prof
from . import oracles as O

MS = 1000  # us per ms


def _rng(seed, salt=0):
    return random.Random(seed * 7919 + salt)


def _base(seed, engine, gen_out, ops, **kw):
    sc = {"format": 1, "engine": engine, "seed": seed, "salt": seed % 9973,
          "machine": gen_out["machine"], "logic": gen_out["logic"], "children": gen_out.get("children", {}),
          "ops": ops, "sched": {"tie_seed": seed % 1000003}}
    sc.update(kw)
    return sc


_SYNC_LINES = []


def _sync_code_lines():
    """Line numbers of sync_interpreter.py that carry code (from the compiled module's line tables)."""
    if not _SYNC_LINES:
        import xstate_statemachine.sync_interpreter as _m
        with open(_m.__file__) as f:
            top = compile(f.read(), _m.__file__, "exec")
        seen = set()
        stack = [top]
        while stack:
            co = stack.pop()
            for _s, _e, ln in co.co_lines():
                if ln:
                    seen.add(ln)
            stack.extend(c for c in co.co_consts if hasattr(c, "co_lines"))
        _SYNC_LINES.extend(sorted(seen))
    return _SYNC_LINES


def _line_preempts(rng, sc, p=0.7):
    """Location-keyed pre-emption points for the sync engine: source lines drawn uniformly over LINES, so a line that runs
    once per drain (a finally block, a lock release) is as likely a switch point as a line of a hot loop."""
    if rng.random() >= p:
        return
    lines = _sync_code_lines()
    pts = []
    for _ in range(rng.randint(6, 16)):
        ln = rng.choice(lines)
        # a short run of consecutive lines widens narrow windows (check ... release)
        for d in range(rng.choice((1, 1, 2, 3))):
            pts.append(["sync_interpreter.py", ln + d, rng.choice((0, 0, 1, 2, 3))])
    sc["sched"]["preempt_lines"] = pts


# ===========================================================================
# C08 - delayed transitions
# ===========================================================================

def _lattice_time(rng, cur, step=10 * MS):
    """Next op time: on the 10 ms lattice (collides with deadlines), sometimes +-1us."""
    k = rng.choice((0, 0, 1, 1, 1, 2, 3, 5, 10))
    t = (cur // step + k) * step
    r = rng.random()
    if r < 0.15:
        t = max(cur, t - 1)
    elif r < 0.30:
        t = t + 1
    return max(cur, t)


def _c08_profile(rng, asyncish):
    return prof(n_states=(3, 8), max_depth=rng.choice((2, 2, 3)), p_after=0.55, events=3, p_trans=0.5,
                p_history=0.08, p_parallel=0.10, p_always=0.05, p_raise=0.05,
                p_slow_act=0.10, p_async_act=(0.10 if asyncish else 0.0), p_zero_delay=0.08, p_named_delay=0.35, p_ctx_delay=0.5,
                p_assign=0.3,
                w_target={"none": 1, "self_re": 2, "self": 1, "sibling": 6, "any": 4})


def gen_c08_seq(engine):
    def g(seed):
        rng = _rng(seed, 8)
        mg = MachineGen(rng, _c08_profile(rng, engine == "async"))
        out = mg.build()
        ops = [{"op": "start", "t": 0}]
        t = 0
        for _ in range(rng.randint(4, 12)):
            t = _lattice_time(rng, t)
            if rng.random() < 0.15:
                ops.append({"op": "advance", "dt": rng.choice((10, 20, 50, 100)) * MS})
                continue
            ops.append({"op": "send", "event": rng.choice(mg.events), "t": t, "tag": len(ops),
                        "tie": rng.choice(("before", "after"))})
        sc = _base(seed, engine, out, ops, horizon=t + 400 * MS, post_stop=300 * MS)
        if engine == "sync" and rng.random() < 0.5:
            sc["sched"]["noise"] = rng.choice((0.002, 0.01))
        return sc
    return g


def gen_c08_burst(engine):
    """Several clients, sends landing at the same instant without settling in
    between, stop() near deadlines, late timers, pre-emption."""
    def g(seed):
        rng = _rng(seed, 88)
        mg = MachineGen(rng, _c08_profile(rng, engine == "async"))
        out = mg.build()
        ops = [{"op": "start", "t": 0}]
        t = 0
        nclients = rng.choice((1, 2, 3))
        for _ in range(rng.randint(3, 9)):
            t = _lattice_time(rng, t)
            burst = rng.choice((1, 2, 2, 3))
            for _b in range(burst):
                ops.append({"op": "send", "event": rng.choice(mg.events), "t": t, "tag": len(ops),
                            "client": rng.randrange(nclients) if engine == "async" else rng.randrange(nclients),
                            "tie": "before", "wait": False, "obs": False})
        stop_in = rng.random() < 0.35
        if stop_in:
            ts = _lattice_time(rng, t)
            ops.append({"op": "stop", "t": ts, "tie": rng.choice(("before", "after")), "client": 0, "wait": engine != "async" or rng.random() < 0.5})
            t = ts
        sc = _base(seed, engine, out, ops, horizon=t + 400 * MS, post_stop=300 * MS)
        if engine == "async":
            if rng.random() < 0.3:
                sc["sched"]["late"] = {"p": 0.3, "max": rng.choice((1, 500, 5000))}
        else:
            r = rng.random()
            if r < 0.6:
                sc["sched"]["preempt"] = sorted(rng.sample(range(1, 4000), rng.randint(1, 3)))
            if r > 0.4:
                sc["sched"]["noise"] = rng.choice((0.001, 0.005, 0.02))
            _line_preempts(rng, sc)
        return sc
    return g


register(
    "C08",
    families=[("timers_async_seq", 3, gen_c08_seq("async")), ("timers_async_burst", 3, gen_c08_burst("async")),
              ("timers_sync_seq", 2, gen_c08_seq("sync")), ("timers_sync_race", 3, gen_c08_burst("sync"))],
    oracle=O.oracle_c08,
    nontrivial=O.nontrivial_c08,
    stats=O.stats_c08,
    level="exploration",
    rule=("random machines with 1-2 after delays per state (numeric / named / computed, guarded, candidate lists), events and stop() "
          "placed on the 10 ms deadline lattice (-1us / same instant before or after the timers / +1us), bursts from several clients, "
          "slow and yielding actions, late timers (async), line-level pre-emption (sync). Non-trivial = at least one after-timer fired "
          "or was cancelled AND >= 3 transitions; distinct = hash of the (worker, event, transition) sequence"),
    assumptions=["virtual clock: asyncio timers fire not before their deadline; equal deadlines in PRNG order",
                 "thread pre-emption only at line boundaries in repo code"],
)


# ===========================================================================
# core sequential families (C01, C02, C03, C10, C11, C16 share the generator)
# ===========================================================================

def seq_ops(rng, mg, n_lo=4, n_hi=12, p_can=0.0, p_adv=0.0, extra_events=(), p_batch=0.0):
    from .gen import SCALE
    n_hi = min(25, int(n_hi * SCALE["v"]))
    ops = [{"op": "start"}]
    evs = list(mg.events) + list(extra_events)
    for _ in range(rng.randint(n_lo, n_hi)):
        r = rng.random()
        if r < p_can:
            ops.append({"op": "can", "event": rng.choice(evs + ["E_unknown"])})
        elif r < p_can + p_adv:
            ops.append({"op": "advance", "dt": rng.choice((10, 20, 30, 50, 100)) * MS})
            ops.append({"op": "obs", "label": "adv"})
        elif p_batch and r < p_can + p_adv + p_batch:
            # several events accepted in one call: the tail is queued behind whatever the head does (complete the machine...)
            k = rng.randint(2, 4)
            ops.append({"op": "send_events", "events": [{"type": rng.choice(evs), "tag": 1000 * len(ops) + j} for j in range(k)]})
        else:
            ev = rng.choice(evs) if rng.random() > 0.04 else "E_unknown"
            ops.append({"op": "send", "event": ev, "tag": len(ops)})
    return ops


def gen_core(engine, salt, ops_kw=None, **profkw):
    def g(seed):
        rng = _rng(seed, salt)
        mg = MachineGen(rng, prof(**profkw))
        out = mg.build()
        ops = seq_ops(rng, mg, **(ops_kw or {}))
        return _base(seed, engine, out, ops)
    return g


def gen_c01_async_interleave(seed):
    """Async: yielding entry/exit/transition actions, a second client sending while start() descends."""
    rng = _rng(seed, 101)
    mg = MachineGen(rng, prof(p_async_act=0.35, p_raise=0.25, p_extra_entry=0.5, p_history=0.2, p_parallel=0.2))
    out = mg.build()
    ops = [{"op": "start", "wait": False, "obs": False, "client": 0}]
    for i in range(rng.randint(1, 3)):
        ops.append({"op": "send", "event": rng.choice(mg.events), "tag": 100 + i, "client": 1, "wait": False, "obs": False})
    ops.append({"op": "settle"})
    ops.append({"op": "obs", "label": "after-start"})
    for _ in range(rng.randint(2, 8)):
        ops.append({"op": "send", "event": rng.choice(mg.events), "tag": len(ops), "client": rng.randrange(2)})
    return _base(seed, "async", out, ops)


_C01_COMMON = dict(p_history=0.25, p_parallel=0.2, p_final=0.15, p_always=0.15, p_raise=0.15)

register(
    "C01",
    families=[
        ("core_sync", 3, gen_core("sync", 11, **_C01_COMMON)),
        ("core_async", 3, gen_core("async", 12, **_C01_COMMON)),
        ("core_pure", 2, gen_core("pure", 13, **_C01_COMMON)),
        ("hist_parallel_sync", 1, gen_core("sync", 14, hist_parallel=True, p_parallel=0.35, w_target={"history": 6}, **{k: v for k, v in _C01_COMMON.items() if k != "p_parallel"})),
        ("root_target_sync", 1, gen_core("sync", 15, w_target={"root": 2}, **_C01_COMMON)),
        ("timers_services_async", 2, gen_core("async", 16, ops_kw={"p_adv": 0.3}, p_after=0.3, p_invoke=0.25, svc_kinds=("sync", "coro"), **_C01_COMMON)),
        # sync engine: services that fail (often without onError) on compound states entered through a descendant target,
        # observed by subscribers and on_transition hooks while the entry is still under way
        ("timers_services_sync", 2, gen_core("sync", 17, ops_kw={"p_adv": 0.3}, p_after=0.25, p_invoke=0.4, svc_kinds=("sync",),
                                            **dict(_C01_COMMON, w_target={"descendant": 4, "any": 5, "sibling": 3, "history": 2}))),
        ("async_interleave", 2, gen_c01_async_interleave),
    ],
    oracle=O.oracle_c01,
    level="exploration",
    rule=("random machines (compound/parallel/final/history, cross-branch/ancestor/descendant/self/history/targetless targets, always, raise, "
          "onDone, timers, services) x random event sequences on sync, async and pure; legality predicate evaluated on every observation "
          "(return of start/send, async quiescence, every on_transition hook's to_states and live configuration, every subscriber call, "
          "snapshots, PureSnapshots). Non-trivial = >= 3 transitions; distinct = hash of the (worker, event, transition) sequence"),
)

_C03_COMMON = dict(p_history=0.2, p_parallel=0.25, p_final=0.12, p_always=0.12, p_raise=0.12, p_extra_entry=0.3)

register(
    "C03",
    families=[
        ("core_sync", 3, gen_core("sync", 31, **_C03_COMMON)),
        ("core_async", 3, gen_core("async", 32, **_C03_COMMON)),
        ("async_yield", 2, gen_core("async", 33, p_async_act=0.4, **_C03_COMMON)),
        ("sync_timers", 1, gen_core("sync", 34, ops_kw={"p_adv": 0.3}, p_after=0.3, **_C03_COMMON)),
        # transitions declared on a compound / parallel state (or inside it) that target that state's OWN history child
        ("own_history_sync", 2, gen_core("sync", 35, hist_parallel=True, w_target={"own_history": 6, "any": 3, "sibling": 2, "none": 1},
                                        **dict(_C03_COMMON, p_history=0.6, p_parallel=0.4, p_compound=0.45))),
        ("own_history_async", 1, gen_core("async", 36, hist_parallel=True, w_target={"own_history": 6, "any": 3, "sibling": 2, "none": 1},
                                         **dict(_C03_COMMON, p_history=0.6, p_parallel=0.4, p_compound=0.45))),
    ],
    oracle=O.oracle_c03,
    level="exploration",
    rule=("random machines x event sequences; per executed transition the marker stream is checked for exit<transition<entry order, "
          "child-before-ancestor exits, ancestor-before-child entries, triggering-event identity (type + payload tag), running "
          "entry/exit tally == live configuration at every on_transition, no entry while active, and frame (nothing outside "
          "subtree(LCA(source,target))). Non-trivial = >= 3 transitions"),
)

_C02_COMMON = dict(p_history=0.1, p_parallel=0.3, p_final=0.08, p_always=0.08, p_raise=0.1, p_two=0.45, p_guard=0.5,
                   p_trans=0.55, w_target={"none": 3, "ancestor": 2, "descendant": 2})

register(
    "C02",
    families=[
        ("sel_sync", 3, gen_core("sync", 21, ops_kw={"p_can": 0.25}, **_C02_COMMON)),
        ("sel_async", 3, gen_core("async", 22, ops_kw={"p_can": 0.25}, **_C02_COMMON)),
        ("sel_timers_async", 1, gen_core("async", 23, ops_kw={"p_can": 0.15, "p_adv": 0.25}, p_after=0.3, p_invoke=0.2, svc_kinds=("sync", "coro"), **_C02_COMMON)),
        ("sel_timers_sync", 1, gen_core("sync", 24, ops_kw={"p_can": 0.15, "p_adv": 0.25}, p_after=0.3, p_invoke=0.2, **_C02_COMMON)),
        # candidates sharing a guard TYPE but differing in params / operands (parameterised, stateIn, composites)
        ("sel_rich_sync", 2, gen_core("sync", 25, ops_kw={"p_can": 0.25}, rich_guards=True, w_missing_guard=0.0, **dict(_C02_COMMON, p_always=0.0))),
        ("sel_rich_async", 2, gen_core("async", 26, ops_kw={"p_can": 0.25}, rich_guards=True, w_missing_guard=0.0, **dict(_C02_COMMON, p_always=0.0))),
        # wildcard ("*") and partial ("E1.*") descriptors, also forbidden ones, beside exact keys on the same state and on ancestors:
        # the candidates of ONE state are those of every matching key, so a state whose exact candidates are all disabled still
        # nominates its own enabled wildcard candidate before any ancestor is asked
        ("sel_wild_sync", 2, gen_core("sync", 27, ops_kw={"p_can": 0.25}, p_wildcard=0.35, **dict(_C02_COMMON, p_guard=0.7))),
        ("sel_wild_async", 2, gen_core("async", 28, ops_kw={"p_can": 0.25}, p_wildcard=0.35, **dict(_C02_COMMON, p_guard=0.7))),
    ],
    oracle=O.oracle_c02,
    level="exploration",
    rule=("machines biased to several candidates per event, guarded child over unguarded parent, handlers on ancestors shared by "
          "regions, targetless candidates; every processed event (external, raised, after, done.state, done.invoke) is compared with an "
          "executable transcription of the selection rule evaluated on the configuration (from entry/exit markers) and context "
          "(reconstructed from recorded effects) at the moment the event was received; can() compared with the same reference; "
          "frame condition for unhandled events via observation (configuration, context, history, output, status, task/thread census) "
          "before vs after. Non-trivial = >= 3 transitions"),
)


# ===========================================================================
# C04 - run-to-completion, lossless, ordered
# ===========================================================================

def gen_c04(engine, mode):
    def g(seed):
        rng = _rng(seed, 40 + len(mode))
        asyncish = engine == "async"
        mi = (3, 12) if mode in ("burst", "inflight") else (20, 60)
        inflight = mode == "inflight"
        mg = MachineGen(rng, prof(root_final=False, p_final=0.05, p_raise=(0.1 if inflight else 0.3), p_always=0.1, p_extra_entry=0.4,
                                  p_async_act=((0.6 if inflight else 0.3) if asyncish else 0.0),
                                  p_async_sleep=(0.7 if inflight else 0.0), p_slow_act=0.1, max_iterations=mi,
                                  p_after=(0.25 if mode != "burst" else 0.0), n_states=(3, 8), p_history=0.1))
        out = mg.build()
        nclients = rng.choice((1, 2, 3, 4)) if mode != "burst" else rng.choice((1, 2))
        if inflight:
            # a sustained producer (and occasional bursts) whose sends land while an awaiting action keeps the
            # previous macrostep in flight: more than maxIterations external events per in-flight window / in a row
            ops = [{"op": "start", "t": 0, "client": 0, "wait": True, "obs": False}]
            lim = out["machine"]["maxIterations"]
            t, tag = 1000, 0
            for _ in range(rng.randint(lim + 2, 3 * lim + 6)):
                t += rng.choice((0, 500, 1000, 2000, 3000))
                c = rng.randrange(nclients)
                if rng.random() < 0.15:
                    evs = []
                    for _j in range(rng.choice((2, 3, lim + 1, lim + 3))):
                        tag += 1
                        evs.append({"type": rng.choice(mg.events), "tag": tag, "p": c})
                    ops.append({"op": "send_events", "events": evs, "t": t, "client": c, "wait": False, "obs": False, "tie": "before"})
                else:
                    tag += 1
                    ops.append({"op": "send", "event": rng.choice(mg.events), "tag": tag, "p": c, "t": t, "client": c,
                                "wait": False, "obs": False, "tie": rng.choice(("before", "after"))})
            # virtual time is free: leave room for every event to take a long, sleeping macrostep
            return _base(seed, engine, out, ops, horizon=t + (tag + 5) * 1000 * MS)
        ops = [{"op": "start", "t": 0, "client": 0, "wait": not (asyncish and rng.random() < 0.5), "obs": False}]
        t = 0
        tag = 0
        during_start = asyncish and not ops[0]["wait"]
        for _ in range(rng.randint(3, 10)):
            if not during_start or rng.random() < 0.6:
                t = _lattice_time(rng, t)
            c = rng.randrange(nclients)
            if mode == "burst" or rng.random() < 0.2:
                lim = out["machine"]["maxIterations"]
                n = rng.choice((2, 3, max(1, lim - 1), lim, lim + 1, lim + 3)) if mode == "burst" else rng.randint(2, 4)
                evs = []
                for _j in range(n):
                    tag += 1
                    evs.append({"type": rng.choice(mg.events), "tag": tag, "p": c})
                ops.append({"op": "send_events", "events": evs, "t": t, "client": c, "wait": False, "obs": False, "tie": "before"})
            else:
                tag += 1
                ops.append({"op": "send", "event": rng.choice(mg.events), "tag": tag, "p": c, "t": t, "client": c,
                            "wait": False, "obs": False, "tie": rng.choice(("before", "after"))})
        if mode in ("threads", "multi") and len(ops) > 3:
            # idle points in the middle of the run: whatever was accepted before them must have been processed by then
            for _ in range(rng.choice((1, 2, 3))):
                k = rng.randint(2, len(ops))
                ops.insert(k, {"op": "settle"})
        sc = _base(seed, engine, out, ops, horizon=t + 500 * MS)
        if engine == "sync" and mode != "burst" and rng.random() < 0.3:
            # a plugin whose on_interpreter_start hook sends events (single and as a batch) to the interpreter being started
            hs = [{"type": rng.choice(mg.events), "tag": 9000 + j, "p": 9} for j in range(rng.randint(1, 3))]
            sc["start_hook_sends"] = hs[:1] + ([{"events": hs[1:]}] if len(hs) > 1 else [])
        if engine == "sync" and mode == "threads":
            r = rng.random()
            if r < 0.6:
                sc["sched"]["preempt"] = sorted(rng.sample(range(1, 6000), rng.randint(1, 3)))
            if r > 0.4:
                sc["sched"]["noise"] = rng.choice((0.001, 0.005, 0.02))
            _line_preempts(rng, sc)
        return sc
    return g


register(
    "C04",
    families=[("async_multi", 4, gen_c04("async", "multi")), ("async_burst", 2, gen_c04("async", "burst")),
              ("async_inflight", 3, gen_c04("async", "inflight")),
              ("sync_seq", 2, gen_c04("sync", "multi")), ("sync_threads", 5, gen_c04("sync", "threads")),
              ("sync_burst", 2, gen_c04("sync", "burst"))],
    oracle=O.oracle_c04,
    stats=O.stats_c04,
    level="exploration",
    rule=("1-4 producers (client tasks/threads, timers, raise actions) sending uniquely tagged events at lattice instants, single sends "
          "and send_events bursts below/at/above maxIterations, sends while start() is still descending, yielding and slow actions, "
          "a sustained producer and bursts landing while a sleeping async action keeps a macrostep in flight (async_inflight), "
          "line-level pre-emption for the sync engine; history checked for exactly-once receipt, per-producer order, single worker per "
          "macrostep and no action running for an event other than the one being processed. Non-trivial = >= 3 events received"),
    nontrivial=lambda sc, r: sum(1 for x in r.trace if x[3] == "recv") >= 3,
)


# ===========================================================================
# C09 - invoked services
# ===========================================================================

def gen_c09(engine, mode):
    def g(seed):
        rng = _rng(seed, 90 + len(mode))
        asyncish = engine == "async"
        mg = MachineGen(rng, prof(n_states=(3, 8), max_depth=rng.choice((2, 3)), p_invoke=0.5,
                                  p_shared_invoke_id=(0.5 if rng.random() < 0.4 else 0.0), p_multi_invoke=0.3,
                                  svc_kinds=(("coro", "coro", "sync", "machine") if asyncish else ("sync", "sync", "machine")),
                                  events=3, p_trans=0.5, p_history=0.05, p_parallel=0.12, p_always=0.05, p_raise=0.05,
                                  p_slow_act=0.1, p_async_act=(0.1 if asyncish else 0.0), root_final=False, p_final=0.05,
                                  w_target={"none": 1, "self_re": 2, "sibling": 6, "any": 4}))
        out = mg.build()
        ops = [{"op": "start", "t": 0}]
        t = 0
        for _ in range(rng.randint(3, 10)):
            t = _lattice_time(rng, t)
            if mode == "seq":
                ops.append({"op": "send", "event": rng.choice(mg.events), "t": t, "tag": len(ops), "tie": rng.choice(("before", "after"))})
            else:
                for _b in range(rng.choice((1, 2, 3))):
                    ops.append({"op": "send", "event": rng.choice(mg.events), "t": t, "tag": len(ops), "tie": "before",
                                "wait": False, "obs": False, "client": rng.randrange(2)})
                if rng.random() < 0.4:
                    ops.append({"op": "settle"})
                    ops.append({"op": "obs", "label": "mid"})
        sc = _base(seed, engine, out, ops, horizon=t + 400 * MS, post_stop=200 * MS)
        if mode == "stop":
            ts = _lattice_time(rng, max(0, t - 50 * MS))
            sc["ops"].append({"op": "stop", "t": max(ts, t), "tie": rng.choice(("before", "after"))})
        return sc
    return g


register(
    "C09",
    families=[("svc_async_seq", 3, gen_c09("async", "seq")), ("svc_async_burst", 3, gen_c09("async", "burst")),
              ("svc_async_stop", 1, gen_c09("async", "stop")),
              ("svc_sync_seq", 2, gen_c09("sync", "seq")), ("svc_sync_burst", 1, gen_c09("sync", "burst"))],
    oracle=O.oracle_c09,
    stats=O.stats_c09,
    level="exploration",
    rule=("machines whose states invoke sync callables / coroutines with per-activation plans (duration on the 10 ms lattice, return | raise | "
          "never), each result unique to (service, activation), in 40% of the machines several states share one explicit invoke id; events, bursts, slow actions and stop() placed around completion instants; "
          "history checked for one start per activation with the declared input, attribution of every handled completion to the activation "
          "that started it, done<->return / error<->raise, error status on unhandled failure, and a task census after exit and after stop(). "
          "Non-trivial = >= 1 service call and >= 3 transitions"),
    nontrivial=lambda sc, r: sum(1 for x in r.trace if x[3] == "svc-call") >= 1 and sum(1 for x in r.trace if x[3] == "trans") >= 3,
)


# ===========================================================================
# C10 - completion
# ===========================================================================
_C10 = dict(p_callable_output=0.25, p_falsy_output=0.25, p_final=0.45, p_on_done=1.0, p_parallel=0.3, p_compound=0.35, p_history=0.05, p_always=0.05, p_raise=0.08,
            p_ondone_targetless=0.4, n_states=(5, 12), p_trans=0.55, p_machine_output=0.4, p_out=0.6)


def gen_c10(engine, salt, ops_kw=None, **kw):
    base = gen_core(engine, salt, ops_kw=dict(ops_kw or {"n_lo": 5, "n_hi": 14}, p_batch=0.25), **dict(_C10, **kw))

    def g(seed):
        sc = base(seed)
        sc["post_stop"] = 200 * MS
        return sc
    return g


register(
    "C10",
    families=[("done_sync", 3, gen_c10("sync", 61)), ("done_async", 3, gen_c10("async", 62)),
              ("done_timers_async", 1, gen_c10("async", 63, p_after=0.3, p_invoke=0.2, svc_kinds=("coro", "sync"))),
              # the machine completes (or is stopped) while invoked child machines, their timers and their own actors are alive
              ("done_machines_async", 1, gen_c10("async", 64, p_after=0.2, p_invoke=0.35, svc_kinds=("machine", "coro"), ops_kw={"n_lo": 5, "n_hi": 12, "p_adv": 0.25})),
              ("done_machines_sync", 1, gen_c10("sync", 65, p_after=0.2, p_invoke=0.35, svc_kinds=("machine", "sync"), ops_kw={"n_lo": 5, "n_hi": 12, "p_adv": 0.25})),
              # wildcard / partial / forbidden descriptors on the completing states and inside their regions: the engine's own
              # done.state notification is answered by onDone only
              ("done_wild_sync", 2, gen_c10("sync", 66, p_wildcard=0.4)), ("done_wild_async", 1, gen_c10("async", 67, p_wildcard=0.4))],
    oracle=O.oracle_c10,
    stats=O.stats_c10,
    level="exploration",
    rule=("machines dense in final states, nested compound/parallel owners with onDone (40% targetless), regions completing in every "
          "order, leaving final states and completing again, top-level finals with state and machine output, events after completion "
          "and a final stop(); the configuration sequence (from entry/exit markers) gives every completion instant of every owner; "
          "onDone must run at most once per completion, only while done, and at least once if the owner is still done at the next "
          "quiescent observation. Non-trivial = >= 1 final state entered and >= 3 transitions"),
    nontrivial=lambda sc, r: sum(1 for x in r.trace if x[3] == "trans") >= 3 and any(
        x[3] == "trans" and str(x[7]).startswith("done.state.") for x in r.trace),
)


# ===========================================================================
# C11 - history
# ===========================================================================
_C11 = dict(p_hostile_names=0.3, p_history=0.7, p_compound=0.45, p_parallel=0.2, p_final=0.05, p_always=0.03, p_raise=0.03, n_states=(6, 13),
            p_trans=0.6, w_target={"history": 8, "any": 5, "sibling": 4}, p_on_done=0.3)


def gen_c11(engine, salt, with_restore=False, **kw):
    def g(seed):
        rng = _rng(seed, salt)
        mg = MachineGen(rng, prof(**dict(_C11, **kw)))
        out = mg.build()
        ops = seq_ops(rng, mg, n_lo=6, n_hi=16)
        if with_restore:
            k = rng.randint(2, len(ops))
            ops[k:k] = [{"op": "snapshot", "label": "last"}, {"op": "restore", "from": "last"}, {"op": "start"}]
        return _base(seed, engine, out, ops)
    return g


register(
    "C11",
    families=[("hist_sync", 3, gen_c11("sync", 71)), ("hist_async", 2, gen_c11("async", 72)),
              ("hist_parallel_sync", 2, gen_c11("sync", 73, hist_parallel=True, p_parallel=0.4)),
              ("hist_parallel_async", 1, gen_c11("async", 74, hist_parallel=True, p_parallel=0.4)),
              ("hist_restore_sync", 2, gen_c11("sync", 75, with_restore=True)),
              ("hist_restore_async", 1, gen_c11("async", 76, with_restore=True, hist_parallel=True)),
              # regions resting in a FINAL child when the history-owning parallel parent is left
              ("hist_parallel_final_sync", 2, gen_c11("sync", 77, hist_parallel=True, p_parallel=0.45, p_final=0.3, p_on_done=0.1)),
              # transitions declared on / inside the history-owning state that target its OWN history child
              ("hist_own_sync", 2, gen_c11("sync", 79, hist_parallel=True, p_parallel=0.35, w_target={"own_history": 6, "history": 3, "any": 5, "sibling": 4})),
              ("hist_own_async", 1, gen_c11("async", 80, with_restore=True, hist_parallel=True, p_parallel=0.35, w_target={"own_history": 6, "history": 3, "any": 5, "sibling": 4})),
              ("hist_parallel_final_async", 1, gen_c11("async", 78, hist_parallel=True, p_parallel=0.45, p_final=0.3, p_on_done=0.1,
                                                       with_restore=True))],
    oracle=O.oracle_c11,
    stats=O.stats_c11,
    level="exploration",
    tiers={"quick": {"runs": 26000}, "thorough": {"runs": 600000}},
    rule=("machines dense in shallow/deep history children (under compound and parallel parents, any depth, with and without default "
          "targets) and transitions targeting them; the harness records, from entry/exit markers, what was active under each "
          "history-owning parent at its last exit and computes the expected restored configuration with its own default-descent "
          "function; a crash/restore (snapshot -> fresh machine -> from_snapshot -> start) is inserted at a random point in one third "
          "of the runs; two families are rich in final children so that regions rest in a final state when their parallel parent is left. "
          "Non-trivial = >= 1 history transition from outside the parent and >= 3 transitions"),
    nontrivial=lambda sc, r: O.stats_c11(sc, r)["history_transitions"] >= 1 and sum(1 for x in r.trace if x[3] == "trans") >= 3,
)


# ===========================================================================
# C16 - determinism
# ===========================================================================
_C16 = dict(p_history=0.4, p_compound=0.4, p_parallel=0.4, p_final=0.08, p_always=0.08, p_raise=0.08, n_states=(6, 13),
            p_trans=0.6, w_target={"history": 5, "any": 5, "ancestor": 2}, p_extra_entry=0.2)

def gen_c16_emit(engine, salt):
    """Machines whose action lists run the `emit` built-in while three listeners (one for the type, two wildcard ones) are
    registered: the order in which user callbacks run must not depend on object addresses."""
    base = gen_core(engine, salt, **_C16)

    def g(seed):
        sc = base(seed)
        rng = _rng(seed, salt + 1000)
        note = {"type": "xstate.emit", "params": {"event": {"type": "NOTE"}}}

        def walk(c):
            for f in ("entry", "exit"):
                if isinstance(c.get(f), list) and rng.random() < 0.4:
                    c[f] = c[f] + [dict(note)]
            for ev, tc in (c.get("on") or {}).items():
                for t in (tc if isinstance(tc, list) else [tc]):
                    if isinstance(t, dict) and isinstance(t.get("actions"), list) and rng.random() < 0.4:
                        t["actions"] = t["actions"] + [dict(note)]
            for ch in (c.get("states") or {}).values():
                walk(ch)
        walk(sc["machine"])
        # eight listeners in all: an address-ordered container of them has 8! orders, so two executions with different
        # heap layouts practically never agree by accident (and the replay, a fresh process, diverges as well)
        sc["extra_listeners"] = 5
        return sc
    return g


def gen_c16_actors(engine):
    """Actor scenarios (the C15 command interpreter) whose explicit actor ids are short hex-like strings while generated ids
    are uuid4-shaped and differ in every execution: "generated identifiers ... never influence ordering or selection"."""
    def g(seed):
        import json as _json
        import re as _re
        base = C15_gen(engine)(seed)
        txt = _json.dumps(base)
        for old, new in (("k1", "a1"), ("k2", "b2"), ("k3", "c3"), ("g1", "d4"), ("g2", "e5"), ("h1", "f6")):
            txt = _re.sub(r"(?<![A-Za-z0-9_])" + old + r"(?![A-Za-z0-9_])", new, txt)
        sc = _json.loads(txt)
        sc["uuid_mode"] = "hex"
        sc.pop("post_stop", None)
        return sc
    return g


def C15_gen(engine):
    from . import c15 as _c15
    return _c15.gen_c15(engine)


register(
    "C16",
    families=[("det_sync", 3, gen_core("sync", 161, **_C16)), ("det_async", 3, gen_core("async", 162, **_C16)),
              ("det_pure", 1, gen_core("pure", 163, **_C16)),
              ("det_hist_parallel_sync", 1, gen_core("sync", 164, hist_parallel=True, **_C16)),
              ("det_timers_async", 1, gen_core("async", 165, ops_kw={"p_adv": 0.3}, p_after=0.3, p_invoke=0.2, svc_kinds=("coro", "sync"), **_C16)),
              ("det_actors_sync", 1, gen_c16_actors("sync")), ("det_actors_async", 1, gen_c16_actors("async")),
              ("det_emit_sync", 1, gen_c16_emit("sync", 166)), ("det_emit_async", 1, gen_c16_emit("async", 167))],
    runner=O.run_c16,
    level="exploration",
    chunk=20,
    xproc_is_violation=True,
    scenario_wall_factor=3,
    selftest_scale=20,
    tiers={"quick": {"runs": 2400, "wall": 90}, "thorough": {"runs": 100000}},
    rule=("each scenario (machines dense in parallel regions and deep/shallow history) is executed 6 times: under 4 different salts of "
          "the StateNode hash (every set-iteration order is reachable by some salt) and twice with the unpatched address hash after "
          "perturbing the heap; the normalised traces (actions, guards, transitions, configurations, contexts) must be identical. In "
          "addition 160 (quick) / 480 (thorough) scenarios are re-executed in a fresh interpreter under another PYTHONHASHSEED (string "
          "and bytes hashes change, so the iteration order of every set of ids changes) and the trace digests compared: for this "
          "property a difference is reported as its violation (rule trace-depends-on-hash-seed), its replay file re-runs both "
          "interpreters. "
          "Non-trivial = >= 3 transitions; distinct = hash of the event/transition sequence"),
)


# ===========================================================================
# C05 - engine equivalence
# ===========================================================================
_C05 = dict(p_callable_output=0.3, p_on_done=0.5, p_history=0.0, p_parallel=0.25, p_final=0.12, p_always=0.12, p_raise=0.0, p_assign=0.3, p_choose=0.0, p_pure=0.0,
            p_enq=0.0, n_states=(4, 11), p_extra_entry=0.25, assign_only=True)


def gen_c05(salt, legs, ops_kw=None, **kw):
    base = gen_core("sync", salt, ops_kw=ops_kw, **dict(_C05, **kw))

    def g(seed):
        sc = base(seed)
        sc["legs"] = list(legs)
        txt = repr(sc["machine"])
        sc["uses_history"] = "'history'" in txt
        sc["uses_raise"] = "xstate.raise" in txt
        sc["uses_nested"] = any(x in txt for x in ("xstate.choose", "xstate.pure", "xstate.enqueueActions"))
        sc["uses_invoke"] = "'invoke'" in txt
        return sc
    return g


register(
    "C05",
    families=[("eq_all", 4, gen_c05(51, ("sync", "async", "async2", "pure"))),
              ("eq_raise", 2, gen_c05(52, ("sync", "async", "pure"), p_raise=0.2)),
              ("eq_nested", 1, gen_c05(56, ("sync", "async", "pure"), p_choose=0.15, p_pure=0.1, p_enq=0.1)),
              ("eq_history", 2, gen_c05(53, ("sync", "async", "async2", "pure"), p_history=0.5, w_target={"history": 6})),
              ("eq_services", 2, gen_c05(54, ("sync", "async", "async2"), p_invoke=0.3, svc_kinds=("sync",), p_raise=0.1)),
              # the pure functions "start no timer, service or actor": machines full of invokes (callables and child machines),
              # delays and spawn actions, walked through the pure API only
              # done.state data computed by a dynamic (callable) output of the completing final state
              ("eq_done_data", 2, gen_c05(58, ("sync", "async", "pure"), p_final=0.35, p_on_done=1.0, p_callable_output=0.6, p_compound=0.45)),
              # batches (send_events): everything the head of a batch queues internally (raise, done.state, a synchronous service's
              # result) is behind the rest of the batch in BOTH engines; the pure API has no batch form, so no pure leg
              ("eq_batches", 2, gen_c05(59, ("sync", "async", "async2"), ops_kw={"p_batch": 0.4}, p_raise=0.3, p_final=0.25, p_on_done=0.8,
                                        p_compound=0.4)),
              ("pure_starts_nothing", 1, gen_c05(57, ("pure",), p_invoke=0.5, svc_kinds=("sync", "machine"), p_after=0.4, p_raise=0.1)),
              ("eq_hist_parallel", 1, gen_c05(55, ("sync", "async"), hist_parallel=True, p_parallel=0.4, p_history=0.4, p_raise=0.1,
                                              p_choose=0.1, p_enq=0.1))],
    runner=O.run_c05,
    level="exploration",
    chunk=30,
    stats=lambda sc, r: {"leg_" + str(r.meta.get("engine")): 1,
                         "uses_history": int(bool(sc.get("uses_history"))), "uses_raise": int(bool(sc.get("uses_raise"))),
                         "uses_nested_expansion": int(bool(sc.get("uses_nested"))), "uses_invoke": int(bool(sc.get("uses_invoke"))),
                         "transitions": sum(1 for x in r.trace if x[3] == "trans")},
    tiers={"quick": {"runs": 9000}, "thorough": {"runs": 200000}},
    rule=("the same scenario (machine, logic, event sequence) is executed on SyncInterpreter, on Interpreter (under two different client "
          "schedules) and through initial_transition/transition; after start and after every event the configuration, context, status and "
          "output must agree, as must the ordered list of executed actions with their triggering events (sync vs async) and the list of "
          "action names reported by transition(); the pure leg must call no generated callable, start no thread and leave its input "
          "snapshot unchanged. Non-trivial = >= 3 transitions"),
)


# ===========================================================================
# C06 - guards
# ===========================================================================
_C06 = dict(rich_guards=True, p_guard=0.8, p_two=0.5, p_trans=0.55, p_parallel=0.25, p_history=0.05, p_final=0.05, p_always=0.0,
            p_raise=0.05, p_choose=0.3, p_enq=0.2, n_states=(4, 10), w_target={"none": 3, "ancestor": 2})

register(
    "C06",
    families=[("guards_sync", 3, gen_core("sync", 81, **_C06)), ("guards_async", 3, gen_core("async", 82, **_C06)),
              ("guards_nomissing_sync", 2, gen_core("sync", 83, w_missing_guard=0.0, **_C06)),
              ("guards_always_sync", 1, gen_core("sync", 84, **dict(_C06, p_always=0.15))),
              # guards (also raising ones) on after candidates and on invoke onDone / onError lists
              ("guards_timers_services_sync", 2, gen_core("sync", 85, ops_kw={"p_adv": 0.3}, **dict(_C06, p_after=0.35, p_after_two=0.5, p_invoke=0.3, svc_kinds=("sync",)))),
              # guarded candidates under wildcard / partial descriptors next to guarded exact ones
              ("guards_wild_sync", 1, gen_core("sync", 87, p_wildcard=0.35, **_C06)), ("guards_wild_async", 1, gen_core("async", 88, p_wildcard=0.35, **_C06)),
              ("guards_timers_services_async", 2, gen_core("async", 86, ops_kw={"p_adv": 0.3}, **dict(_C06, p_after=0.35, p_after_two=0.5, p_invoke=0.3, svc_kinds=("coro", "sync"))))],
    oracle=O.oracle_c06,
    stats=O.stats_c06,
    level="exploration",
    rule=("random guard formulas (and/or/not to depth 3 under the three operand spellings) over named, parameterised (literal and "
          "computed params), stateIn (three id spellings, three param forms), raising and unimplemented atoms, written as guard or cond, "
          "at every position of candidate lists and ancestor chains, in choose branches and enqueueActions.check; an independent "
          "evaluator (raise = false; unimplemented = error unless the outcome is the same for both values) feeds the reference selection "
          "rule; fired transitions / chosen branch / check() result are compared. Non-trivial = >= 3 guard evaluations and >= 2 transitions"),
    nontrivial=lambda sc, r: sum(1 for x in r.trace if x[3] == "gcall") >= 3 and sum(1 for x in r.trace if x[3] == "trans") >= 2,
)


# ===========================================================================
# C07 - failure containment and atomicity (fault enumeration)
# ===========================================================================
from . import c07 as C07  # noqa: E402


def _noeffect_extras(rng, mg, cfg):
    """Append behaviour-neutral extra actions (markers, assign to an unread key, log, emit, pure/choose of markers)."""
    def extras():
        out = []
        for _ in range(rng.randint(0, 3)):
            k = rng.random()
            if k < 0.35:
                out.append(mg.act(f"x{rng.randint(1, 4)}"))
            elif k < 0.55:
                out.append({"type": "xstate.assign", "params": {"assignment": {"$fn": {"k": "assign", "name": "asg_z", "ops": [["inc", "z", 1]]}}}})
            elif k < 0.65:
                out.append({"type": "xstate.emit", "params": {"event": {"type": "NOTE"}}})
            elif k < 0.8:
                out.append({"type": "xstate.pure", "params": {"get": {"$fn": {"k": "pure", "name": "pure1", "ret": [mg.act("pu_a"), mg.act("pu_b")]}}}})
            elif k < 0.9:
                out.append({"type": "xstate.choose", "params": {"conditions": [{"guard": "g_true", "actions": [mg.act("ch_a")]}, {"actions": [mg.act("ch_b")]}]}})
            else:
                out.append({"type": "xstate.enqueueActions", "params": {"callback": {"$fn": {"k": "enq", "name": "enq1", "items": [mg.act("eq_a")], "checks": []}}}})
        return out
    mg.guards["g_true"] = {"k": "const", "v": True}

    def walk(c):
        for f in ("entry", "exit"):
            if isinstance(c.get(f), list) and rng.random() < 0.6:
                c[f] = c[f] + extras()
        for field in ("on", "after"):
            for ev, tc in (c.get(field) or {}).items():
                for t in (tc if isinstance(tc, list) else [tc]):
                    if isinstance(t, dict) and isinstance(t.get("actions"), list) and rng.random() < 0.6:
                        t["actions"] = t["actions"] + extras()
        for ch in (c.get("states") or {}).values():
            walk(ch)
    walk(cfg)


def gen_c07_contain(engine, services=False):
    def g(seed):
        rng = _rng(seed, 700 + (7 if services else 0))
        svc = dict(p_invoke=0.4, svc_kinds=(("coro", "sync") if engine == "async" else ("sync",)), root_final=True) if services else {}
        mg = MachineGen(rng, prof(p_assign=0.0, p_raise=0.0, p_extra_entry=0.0, p_always=0.0, p_history=0.1, p_parallel=0.2,
                                  p_final=0.1, n_states=(3, 8), p_guard=0.3, p_after=0.15, **svc))
        out = mg.build()
        _noeffect_extras(rng, mg, out["machine"])
        out["machine"]["context"]["z"] = 0
        ops = seq_ops(rng, mg, n_lo=3, n_hi=7, p_adv=0.15)
        sc = _base(seed, engine, out, ops, horizon=None)
        sc["c07_mode"] = "contain"
        sc["hostile_plugin"] = ["on_transition", "on_action_execute", "on_event_received", "on_guard_evaluated", "on_interpreter_start", "on_action_error"]
        if services:
            # observer hooks around services, completion and shutdown
            sc["hostile_plugin"] += ["on_service_start", "on_service_done", "on_service_error", "on_done", "on_error", "on_interpreter_stop"]
            sc["post_stop"] = 100 * MS
        sc["hostile_subscriber"] = True
        sc["hostile_listener"] = True
        sc["plugin_via_property"] = rng.random() < 0.5
        sc["fault_pairs"] = [[rng.randint(1, 30), rng.randint(31, 60)] for _ in range(3)]
        return sc
    return g


def gen_c07_abort(engine):
    def g(seed):
        import copy
        from .execs import execute
        rng = _rng(seed, 701)
        mg = MachineGen(rng, prof(p_assign=0.1, p_raise=0.0, p_always=0.0, p_history=0.1, p_parallel=0.2, p_final=0.0, root_final=False,
                                  n_states=(3, 8), p_guard=0.2, p_after=0.35, p_trans=0.6))
        out = mg.build()
        kind = rng.choice(("missing_action", "missing_action", "bad_target", "missing_service") + (("coro_action",) if engine == "sync" else ()))
        ops = [{"op": "start"}]
        for _ in range(rng.randint(4, 10)):
            if rng.random() < 0.2:
                ops.append({"op": "advance", "dt": rng.choice((10, 30, 100)) * MS})
            else:
                ops.append({"op": "send", "event": rng.choice(mg.events), "tag": len(ops)})
        # fault-free dry run: which entry / exit / transition lists does this scenario actually execute after start()?
        # (a poisoned list that is never reached tests nothing; one on the initial path only makes start() refuse)
        dry = _base(seed, engine, copy.deepcopy(out), copy.deepcopy(ops), horizon=None)
        dry["ops"].append({"op": "advance", "dt": 400 * MS})
        hit = set()
        try:
            r0 = execute(dry)
            started = False
            for x in r0.trace:
                if x[3] == "op-ret" and x[5] == "start":
                    started = True
                elif started and x[3] == "act" and x[4] == "m":
                    hit.add(x[5])
        except Exception:
            hit = set()
        # poison one transition / entry / exit list
        spots, live = [], []

        def walk(c, path):
            sid = ".".join(("m",) + path)
            for f in ("entry", "exit"):
                if isinstance(c.get(f), list) and path:
                    spots.append((c, f, None))
                    if ("en." if f == "entry" else "ex.") + sid in hit:
                        live.append((c, f, None))
            for ev, tc in (c.get("on") or {}).items():
                for t in (tc if isinstance(tc, list) else [tc]):
                    if isinstance(t, dict) and t.get("target"):
                        spots.append((t, "actions", ev))
                        if any(isinstance(a_, str) and a_ in hit for a_ in (t.get("actions") or [])):
                            live.append((t, "actions", ev))
            for k, ch in (c.get("states") or {}).items():
                walk(ch, path + (k,))
        walk(out["machine"], ())
        where = None
        reached = False
        if spots:
            if live and rng.random() < 0.85:
                holder, field, ev = rng.choice(live)
                reached = True
            else:
                holder, field, ev = rng.choice(spots)
            where = field if ev is None else "transition"
            if kind == "missing_action":
                lst = holder.setdefault(field, [])
                lst.insert(rng.randint(0, len(lst)), "not_implemented_action")
            elif kind == "coro_action":
                lst = holder.setdefault(field, [])
                mg.actions["coro_act"] = {"eff": [], "force_async": True}
                lst.insert(rng.randint(0, len(lst)), "coro_act")
            elif kind == "bad_target":
                if field != "actions":
                    tl = [x_ for x_ in live if x_[1] == "actions"] or [x_ for x_ in spots if x_[1] == "actions"]
                    if tl:
                        holder, field, ev = rng.choice(tl)
                        where = "transition"
                if field == "actions":
                    holder["target"] = "#m.no_such_state"
        if kind == "missing_service":
            states, entered = [], []

            def sw(c, path):
                for k, ch in (c.get("states") or {}).items():
                    if ch.get("type") not in ("history", "final") and path + (k,) != (out["machine"].get("initial"),):
                        states.append(ch)
                        if "en." + ".".join(("m",) + path + (k,)) in hit:
                            entered.append(ch)
                    sw(ch, path + (k,))
            sw(out["machine"], ())
            if states:
                reached = bool(entered) and rng.random() < 0.85
                st = rng.choice(entered if reached else states)
                st["invoke"] = {"src": "unregistered_service", "id": "inv_missing"}
                where = "invoke"
        sc = _base(seed, engine, out, ops, horizon=None)
        sc["ops"].append({"op": "advance", "dt": 400 * MS})
        sc["c07_mode"] = "abort"
        sc["poison"] = {"kind": kind, "where": where, "on_executed_path": reached}
        return sc
    return g


register(
    "C07",
    families=[("contain_sync", 3, gen_c07_contain("sync")), ("contain_async", 3, gen_c07_contain("async")),
              ("contain_services_sync", 2, gen_c07_contain("sync", services=True)),
              ("contain_services_async", 2, gen_c07_contain("async", services=True)),
              ("abort_sync", 2, gen_c07_abort("sync")), ("abort_async", 2, gen_c07_abort("async"))],
    runner=C07.run_c07,
    stats=C07.stats_c07,
    scenario_wall_factor=5,
    level="fault_enumeration",
    chunk=8,
    tiers={"quick": {"runs": 500}, "thorough": {"runs": 30000}},
    rule=("per sampled scenario: a fault-free run counts the calls to generated code (actions, assign/pure/enqueueActions/param "
          "callables, guards, hostile plugin hooks, subscriber, emit listener), then the scenario is re-run once per call position (all "
          "of them up to 48, evenly thinned above) with that call raising, plus seeded pairs; twin comparison against the fault-free run "
          "(configuration sequence, action stream minus one contiguous remainder, on_action_error). Abort families poison one action "
          "list / target / invoke (missing action, coroutine action under sync, unresolvable target, unregistered service), placed "
          "with probability 0.85 on a list that a fault-free dry run of the same scenario executes after start(), and check "
          "rollback to the pre-transition configuration (async aborts attributed to the caller's send by event tag), a legal "
          "configuration at every observation after any abort, reporting, re-armed timers and continued processing. evaluations counts "
          "scenarios; fault positions are in the counters. Non-trivial = >= 3 transitions"),
)


# ===========================================================================
# C12 - snapshots (every cut point of each sampled scenario)
# ===========================================================================
from . import c12 as C12  # noqa: E402

_C12 = dict(p_list_ctx=0.25, p_pop_ctx=0.25, p_falsy_output=0.35, p_history=0.3, p_parallel=0.25, p_final=0.12, p_always=0.08, p_raise=0.08, p_assign=0.3, n_states=(4, 11),
            w_target={"history": 4}, p_on_done=0.6)


def gen_c12(engine, salt, cycles=1, **kw):
    base = gen_core(engine, salt, ops_kw={"n_lo": 3, "n_hi": 8}, **dict(_C12, **kw))

    def g(seed):
        sc = base(seed)
        sc["restore_cycles"] = cycles
        return sc
    return g


def gen_c12_corrupt(engine, salt):
    base = gen_core(engine, salt, ops_kw={"n_lo": 1, "n_hi": 4}, **_C12)

    def g(seed):
        sc = base(seed)
        sc["c12_mode"] = "corrupt"
        return sc
    return g


register(
    "C12",
    families=[("cuts_sync", 3, gen_c12("sync", 121)), ("cuts_async", 3, gen_c12("async", 122)),
              ("cuts_cycles_sync", 1, gen_c12("sync", 123, cycles=3)),
              ("cuts_hist_parallel_async", 1, gen_c12("async", 124, hist_parallel=True, p_parallel=0.4)),
              ("corrupt_sync", 1, gen_c12_corrupt("sync", 125)), ("corrupt_async", 1, gen_c12_corrupt("async", 126)),
              # snapshots taken while an INVOKED child machine is alive, continuations that leave / re-enter the invoking state
              ("cuts_invoked_machine_sync", 2, gen_c12("sync", 127, p_invoke=0.45, svc_kinds=("machine", "machine", "sync"))),
              ("cuts_invoked_machine_async", 2, gen_c12("async", 128, p_invoke=0.45, svc_kinds=("machine", "machine", "sync")))],
    runner=C12.run_c12,
    stats=C12.stats_c12,
    scenario_wall_factor=4,
    level="fault_enumeration",
    chunk=10,
    tiers={"quick": {"runs": 2400}, "thorough": {"runs": 60000}},
    rule=("per sampled scenario of n events: for EVERY k <= n the run is cut after event k: get_snapshot(), the interpreter is abandoned "
          "(its tasks/threads die silently), a fresh machine is built from the same config, from_snapshot + start, and events k+1..n are "
          "replayed; the restored run must agree with the uninterrupted one after every continuation event on configuration, context, "
          "status, output, error, history, actors and system registrations; snapshot(restore(s)) == s; a persisted snapshot dict is not "
          "changed by later execution; corrupt families apply 18 corruption kinds (truncation, structural byte flip, wrong-typed / "
          "missing fields, unknown and foreign state ids) and require a library error. evaluations = executions; cut points in counters"),
)


# ===========================================================================
# C13 - termination and non-starvation
# ===========================================================================
from . import c13 as C13  # noqa: E402

register(
    "C13",
    families=[("cycles_sync", 1, C13.gen_c13("sync")), ("cycles_async", 1, C13.gen_c13("async"))],
    oracle=C13.oracle_c13,
    judges_aborted_runs=True,
    stats=C13.stats_c13,
    shrink_machine=False,
    level="exploration",
    chunk=40,
    tiers={"quick": {"runs": 3000}, "thorough": {"runs": 200000}},
    nontrivial=lambda sc, r: True,
    rule=("eight cycle templates (always ping-pong, self always, action raising its own trigger with and without re-entry and with a "
          "fan-out of two raises per round, onDone "
          "re-completing its state, self-enqueueing pure / enqueueActions) x natural length below / at / above maxIterations or endless x "
          "maxIterations in {3..40} x triggered by start() or by an event, followed by probe events and (half the runs) an external "
          "send_events burst around the bound and (async, a third of the runs) more than maxIterations external events sent by another "
          "task while a sleeping action keeps one macrostep in flight; termination is decided by counting sys.monitoring LINE events in repo code against a "
          "budget proportional to maxIterations (a spin is unwound by raising from the callback), rounds are counted from markers. "
          "distinct = (template, relation, trigger, engine, M) combinations via trace hash"),
)


# ===========================================================================
# C14 - lifecycle
# ===========================================================================
from . import c14 as C14  # noqa: E402


def gen_c14(engine, mode):
    def g(seed):
        rng = _rng(seed, 140 + len(mode))
        asyncish = engine == "async"
        mg = MachineGen(rng, prof(n_states=(3, 8), p_after=0.35, p_invoke=0.3,
                                  svc_kinds=(("coro", "sync", "machine") if asyncish else ("sync", "sync", "machine")),
                                  p_delayed_raise=0.2, p_raise=0.05, p_final=0.12, p_history=0.05, p_parallel=0.15, p_always=0.05,
                                  p_slow_act=0.08, p_async_act=(0.1 if asyncish else 0.0), events=3,
                                  p_stop_act=(0.06 if mode == "inside" else 0.0)))
        out = mg.build()
        if mode == "inside" and rng.random() < 0.6:
            # stop() called by an action of the very transition that goes on to enter a top-level final state
            # (or by that final state's entry action): the status must stay `stopped`
            root = out["machine"]
            fins = [k for k, v in (root.get("states") or {}).items() if v.get("type") == "final"]
            if not fins:
                root["states"]["FIN"] = {"type": "final", "entry": [mg.act("en.m.FIN", [])]}
                fins = ["FIN"]
            fin = rng.choice(fins)
            srcs = [(k, v) for k, v in root["states"].items() if v.get("type") not in ("final", "history")]
            if srcs:
                k, v = rng.choice(srcs)
                ev = rng.choice(mg.events)
                stopper = mg.act("stop_inside", [["stop"]])
                where = rng.choice(("trans", "trans", "final_entry", "source_exit"))
                tr = {"target": f"#m.{fin}", "actions": [mg.act("tr.TSTOPFIN", [])]}
                if where == "trans":
                    tr["actions"].insert(rng.randint(0, 1), stopper)
                elif where == "final_entry":
                    root["states"][fin].setdefault("entry", []).append(stopper)
                else:
                    v.setdefault("exit", []).append(stopper)
                on = v.setdefault("on", {})
                old = on.get(ev)
                on[ev] = [tr] + (old if isinstance(old, list) else ([old] if old else []))
        ops = []
        t = 0
        started = False
        for _ in range(rng.randint(4, 12)):
            t = _lattice_time(rng, t)
            r = rng.random()
            base = {"t": t, "tie": rng.choice(("before", "after"))}
            if mode in ("race",):
                base.update({"wait": False, "obs": False, "client": rng.randrange(2)})
            if not started and r < 0.8:
                ops.append(dict(base, op="start", client=0))
                started = True
            elif r < 0.10:
                ops.append(dict(base, op="start"))
            elif r < 0.28:
                ops.append(dict(base, op="stop"))
                if mode == "race":
                    ops.append({"op": "settle"})
                    ops.append({"op": "obs", "label": "post-stop"})
            elif r < 0.36 and started and mode == "seq":
                ops.append({"op": "snapshot", "label": "last", "t": t})
                ops.append({"op": "restore", "from": "last"})
                if rng.random() < 0.8:
                    ops.append({"op": "start"})
            elif r < 0.45:
                ops.append(dict(base, op="send_events", events=[{"type": rng.choice(mg.events), "tag": 1000 + len(ops) * 10 + j} for j in range(rng.randint(1, 3))]))
            else:
                ops.append(dict(base, op="send", event=rng.choice(mg.events), tag=len(ops) + 1))
        sc = _base(seed, engine, out, ops, horizon=t + 300 * MS, post_stop=300 * MS)
        if engine == "sync" and mode == "race":
            r = rng.random()
            if r < 0.6:
                sc["sched"]["preempt"] = sorted(rng.sample(range(1, 5000), rng.randint(1, 3)))
            if r > 0.4:
                sc["sched"]["noise"] = rng.choice((0.001, 0.005, 0.02))
            _line_preempts(rng, sc)
        return sc
    return g


register(
    "C14",
    families=[("life_async_seq", 3, gen_c14("async", "seq")), ("life_async_race", 3, gen_c14("async", "race")),
              ("life_async_inside", 3, gen_c14("async", "inside")),
              ("life_sync_seq", 3, gen_c14("sync", "seq")), ("life_sync_race", 2, gen_c14("sync", "race")),
              ("life_sync_inside", 3, gen_c14("sync", "inside"))],
    oracle=C14.oracle_c14,
    stats=C14.stats_c14,
    level="exploration",
    rule=("random sequences of start / send / send_events / stop / snapshot+restore(+start), repeated and out of order, at lattice "
          "instants around timer deadlines and service completions, from one or two clients without settling in between (race mode), "
          "with stop() called from inside an action (in 40% of the `inside` runs by the transition that enters a top-level final state, "
          "by its source's exit or by that final state's entry), after done, after error; machines carry after-timers, delayed raises with ids, "
          "services and final states. Status is sampled at every call, return, hook and observation and must follow the allowed edges; "
          "after stop() returns the task/thread census must be empty and no action / transition / event receipt may follow, including "
          "after advancing the clock past every pending delay. Non-trivial = >= 1 stop and >= 2 transitions"),
    nontrivial=lambda sc, r: any(x[3] == "op-call" and x[5] == "stop" for x in r.trace) and sum(1 for x in r.trace if x[3] == "trans") >= 2,
)


# ===========================================================================
# C15 - actors
# ===========================================================================
from . import c15 as C15  # noqa: E402

register(
    "C15",
    families=[("actors_async", 4, C15.gen_c15("async")), ("actors_sync", 3, C15.gen_c15("sync")),
              ("actors_reuse_async", 1, C15.gen_c15("async", "reuse")), ("actors_reuse_sync", 1, C15.gen_c15("sync", "reuse"))],
    oracle=C15.oracle_c15,
    stats=C15.stats_c15,
    shrink_machine=False,
    level="exploration",
    tiers={"quick": {"runs": 4000}, "thorough": {"runs": 300000}},
    rule=("trees of actors (depth <= 3) built from one command-interpreter machine: each operation's payload carries the actor actions "
          "to run (spawnChild / spawn_<key> with explicit or generated ids, systemIds, factories; sendTo by id, systemId, service key, "
          "callable, ambiguous and unknown targets; sendParent, forwardTo, escalate; delayed sends with ids; cancel; stopChild; FIN) and "
          "commands are relayed down the tree; a reference registry (dicts) in the generator predicts the receiver of every uniquely "
          "tagged message; per-actor receive logs are compared (exactly once, right actor, order per pair, cancelled never, dropped when "
          "unresolved/ambiguous), stopChild / root stop() must leave every descendant stopped, unregistered and silent. "
          "Non-trivial = >= 2 actors created and >= 3 tagged messages"),
    nontrivial=lambda sc, r: C15.stats_c15(sc, r)["actors_created"] >= 2 and C15.stats_c15(sc, r)["messages_expected"] >= 3,
)


# C12 with actor trees and systemId registrations (the command-interpreter machines of C15, no delayed sends)
def gen_c12_actors(engine):
    base = C15.gen_c15(engine)

    def g(seed):
        sc = base(seed)
        ops = []
        for op in sc["ops"]:
            op = {k: v for k, v in op.items() if k not in ("t",)}
            txt = repr(op)
            if "'delay'" in txt or "xstate.cancel" in txt:
                continue  # pending delayed sends are documented as not persisted
            ops.append(op)
        sc["ops"] = ops[:9]
        sc.pop("horizon", None)
        sc.pop("post_stop", None)
        sc["uses_actors"] = True
        sc["restore_cycles"] = 1
        return sc
    return g


C12_FAMS = REGISTRY_C12 = None
from .check import REGISTRY as _REG  # noqa: E402
_REG["C12"]["families"] = list(_REG["C12"]["families"]) + [("cuts_actors_async", 2, gen_c12_actors("async")),
                                                            ("cuts_actors_sync", 2, gen_c12_actors("sync"))]
