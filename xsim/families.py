"""Registration of properties: scenario families + oracles."""
from __future__ import annotations

import random

from .check import register
from .gen import MachineGen, prof
from . import oracles as O

MS = 1000  # us per ms


def _rng(seed, salt=0):
    return random.Random(seed * 7919 + salt)


def _base(seed, engine, gen_out, ops, **kw):
    sc = {"format": 1, "engine": engine, "seed": seed, "salt": seed % 9973,
          "machine": gen_out["machine"], "logic": gen_out["logic"], "children": gen_out.get("children", {}),
          "ops": ops, "sched": {"tie_seed": seed % 1000003}}
    sc.update(kw)
    return sc


# ===========================================================================
# C08 - delayed transitions
# ===========================================================================

def _lattice_time(rng, cur, step=10 * MS):
    """Next op time: on the 10 ms lattice (collides with deadlines), sometimes +-1us."""
    k = rng.choice((0, 0, 1, 1, 1, 2, 3, 5, 10))
    t = (cur // step + k) * step
    r = rng.random()
    if r < 0.15:
        t = max(cur, t - 1)
    elif r < 0.30:
        t = t + 1
    return max(cur, t)


def _c08_profile(rng, asyncish):
    return prof(n_states=(3, 8), max_depth=rng.choice((2, 2, 3)), p_after=0.55, events=3, p_trans=0.5,
                p_history=0.08, p_parallel=0.10, p_always=0.05, p_raise=0.05,
                p_slow_act=0.10, p_async_act=(0.10 if asyncish else 0.0),
                w_target={"none": 1, "self_re": 2, "self": 1, "sibling": 6, "any": 4})


def gen_c08_seq(engine):
    def g(seed):
        rng = _rng(seed, 8)
        mg = MachineGen(rng, _c08_profile(rng, engine == "async"))
        out = mg.build()
        ops = [{"op": "start", "t": 0}]
        t = 0
        for _ in range(rng.randint(4, 12)):
            t = _lattice_time(rng, t)
            if rng.random() < 0.15:
                ops.append({"op": "advance", "dt": rng.choice((10, 20, 50, 100)) * MS})
                continue
            ops.append({"op": "send", "event": rng.choice(mg.events), "t": t, "tag": len(ops),
                        "tie": rng.choice(("before", "after"))})
        sc = _base(seed, engine, out, ops, horizon=t + 400 * MS, post_stop=300 * MS)
        if engine == "sync" and rng.random() < 0.5:
            sc["sched"]["noise"] = rng.choice((0.002, 0.01))
        return sc
    return g


def gen_c08_burst(engine):
    """Several clients, sends landing at the same instant without settling in
    between, stop() near deadlines, late timers, pre-emption."""
    def g(seed):
        rng = _rng(seed, 88)
        mg = MachineGen(rng, _c08_profile(rng, engine == "async"))
        out = mg.build()
        ops = [{"op": "start", "t": 0}]
        t = 0
        nclients = rng.choice((1, 2, 3))
        for _ in range(rng.randint(3, 9)):
            t = _lattice_time(rng, t)
            burst = rng.choice((1, 2, 2, 3))
            for _b in range(burst):
                ops.append({"op": "send", "event": rng.choice(mg.events), "t": t, "tag": len(ops),
                            "client": rng.randrange(nclients) if engine == "async" else rng.randrange(nclients),
                            "tie": "before", "wait": False, "obs": False})
        stop_in = rng.random() < 0.35
        if stop_in:
            ts = _lattice_time(rng, t)
            ops.append({"op": "stop", "t": ts, "tie": rng.choice(("before", "after")), "client": 0, "wait": engine != "async" or rng.random() < 0.5})
            t = ts
        sc = _base(seed, engine, out, ops, horizon=t + 400 * MS, post_stop=300 * MS)
        if engine == "async":
            if rng.random() < 0.3:
                sc["sched"]["late"] = {"p": 0.3, "max": rng.choice((1, 500, 5000))}
        else:
            r = rng.random()
            if r < 0.6:
                sc["sched"]["preempt"] = sorted(rng.sample(range(1, 4000), rng.randint(1, 3)))
            if r > 0.4:
                sc["sched"]["noise"] = rng.choice((0.001, 0.005, 0.02))
        return sc
    return g


register(
    "C08",
    families=[("timers_async_seq", 3, gen_c08_seq("async")), ("timers_async_burst", 3, gen_c08_burst("async")),
              ("timers_sync_seq", 2, gen_c08_seq("sync")), ("timers_sync_race", 3, gen_c08_burst("sync"))],
    oracle=O.oracle_c08,
    nontrivial=O.nontrivial_c08,
    stats=O.stats_c08,
    level="exploration",
    rule=("random machines with 1-2 after delays per state (numeric / named / computed, guarded, candidate lists), events and stop() "
          "placed on the 10 ms deadline lattice (-1us / same instant before or after the timers / +1us), bursts from several clients, "
          "slow and yielding actions, late timers (async), line-level pre-emption (sync). Non-trivial = at least one after-timer fired "
          "or was cancelled AND >= 3 transitions; distinct = hash of the (worker, event, transition) sequence"),
    assumptions=["virtual clock: asyncio timers fire not before their deadline; equal deadlines in PRNG order",
                 "thread pre-emption only at line boundaries in repo code"],
)
