"""Maintainer helper: python -m xsim.adopt <replay> <finding-id> '<what>' ['<signature json>']
Copies a verified replay to findings/ and lists it in known_findings.json (never used by checks at run time)."""
import json, os, shutil, sys
from .check import KNOWN, VERIF


def main(argv):
    replay, fid, what = argv[0], argv[1], argv[2]
    doc = json.load(open(replay))
    sig = json.loads(argv[3]) if len(argv) > 3 else doc["expect"]["signature"]
    doc["expect"]["signature"] = sig
    dst = os.path.join(VERIF, "findings", fid + ".json")
    with open(dst, "w") as f:
        json.dump(doc, f, indent=1)
    known = json.load(open(KNOWN)) if os.path.exists(KNOWN) else []
    known = [e for e in known if e["id"] != fid]
    known.append({"id": fid, "status": "known", "property": doc["property"], "rule": doc["expect"]["rule"],
                  "signature": sig, "what": what, "replay": "findings/" + fid + ".json"})
    json.dump(known, open(KNOWN, "w"), indent=1)
    print("adopted", fid, sig)


if __name__ == "__main__":
    main(sys.argv[1:])
