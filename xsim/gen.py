"""Scenario generation: machines, symbolic logic, operation plans.

generate pieces are pure functions of (rng, profile).  Keys of states are
globally unique inside a machine (S1, S2, ...), targets are absolute `#m.path`.
"""
from __future__ import annotations

import copy

DEFAULT_PROFILE = {
    "n_states": (4, 10),
    "max_depth": 3,
    "p_compound": 0.30,
    "p_parallel": 0.12,
    "p_final": 0.12,
    "p_history": 0.15,
    "hist_parallel": False,
    "root_parallel": 0.05,
    "events": 4,
    "p_trans": 0.45,
    "p_two": 0.25,
    "p_guard": 0.30,
    "w_target": {"sibling": 5, "any": 4, "ancestor": 1, "descendant": 1, "self": 1, "self_re": 1,
                 "history": 2, "none": 2, "root": 0},
    "p_always": 0.10,
    "p_after": 0.0,
    "delays": (10, 20, 30, 50, 100),
    "p_zero_delay": 0.0,
    "p_falsy_output": 0.0,
    "p_list_ctx": 0.0,
    "p_callable_output": 0.0,
    "p_ctx_delay": 0.0,
    "p_after_two": 0.15,
    "p_named_delay": 0.2,
    "p_invoke": 0.0,
    "p_hostile_names": 0.08,
    "p_wildcard": 0.0,
    "p_shared_invoke_id": 0.0,
    "p_multi_invoke": 0.0,
    "svc_kinds": ("sync",),
    "p_on_done": 0.7,
    "p_raise": 0.10,
    "p_assign": 0.15,
    "p_extra_entry": 0.15,
    "p_out": 0.4,
    "p_machine_output": 0.2,
    "p_async_act": 0.0,
    "p_slow_act": 0.0,
    "max_iterations": (20, 60),
    "p_choose": 0.0,
    "p_pure": 0.0,
    "p_enq": 0.0,
    "raise_events": 2,
    "p_forbid": 0.0,
    "root_final": True,
    "p_ondone_targetless": 0.0,
    "assign_only": False,
    "rich_guards": False,
    "p_delayed_raise": 0.0,
    "p_stop_act": 0.0,
    "w_missing_guard": 0.6,
}


#: size scale, set by the runner from the tier (thorough explores larger machines and longer histories)
import os as _os

SCALE = {"v": float(_os.environ.get("VERIF_SCALE", "1.0"))}


def prof(**kw):
    p = copy.deepcopy(DEFAULT_PROFILE)
    for k, v in kw.items():
        if k == "w_target":
            p["w_target"].update(v)
        else:
            p[k] = v
    if SCALE["v"] != 1.0:
        lo, hi = p["n_states"]
        p["n_states"] = (lo, min(16, int(hi * SCALE["v"])))
        p["max_depth"] = min(4, p["max_depth"] + 1)
    return p


class GNode:
    __slots__ = ("key", "kind", "children", "parent", "cfg", "id", "depth", "hist")

    def __init__(self, key, kind, parent):
        self.key = key
        self.kind = kind
        self.parent = parent
        self.children = []
        self.cfg = {}
        self.id = f"{parent.id}.{key}" if parent else key
        self.depth = parent.depth + 1 if parent else 0
        self.hist = None

    def walk(self):
        yield self
        for c in self.children:
            yield from c.walk()

    def ancestors(self):
        n = self.parent
        while n is not None:
            yield n
            n = n.parent


def wchoice(rng, weights):
    items = [(k, w) for k, w in weights.items() if w > 0]
    tot = sum(w for _, w in items)
    x = rng.random() * tot
    for k, w in items:
        x -= w
        if x <= 0:
            return k
    return items[-1][0]


class MachineGen:
    def __init__(self, rng, profile, mid="m"):
        self.rng = rng
        self.p = profile
        self.mid = mid
        self.nkeys = 0
        self.ntrans = 0
        self.actions = {}
        self.guards = {}
        self.services = {}
        self.delays = {}
        self.events = [f"E{i+1}" for i in range(profile["events"])]
        self.raise_events = [f"R{i+1}" for i in range(profile.get("raise_events", 2))]
        self.info = {"after": [], "invoke": [], "hist": [], "finals": [], "trans": {}}
        self.all_keys = []
        self.children = {}

    # -- tree ---------------------------------------------------------------
    def key(self, parent=None):
        """Next state key.  With `p_hostile_names` some keys are string-prefixes / string-suffixes of a sibling's key
        (`S3` / `S3x`, `S3` / `xS3`) or repeat a key used under another parent (`idle` in every region): ids are dotted
        paths, and code that compares them as plain text (startswith / endswith without the dot) only fails on such names."""
        self.nkeys += 1
        k = f"S{self.nkeys}"
        p = self.p.get("p_hostile_names") or 0.0
        if parent is not None and p and self.rng.random() < p:
            sib = [c.key for c in parent.children]
            r = self.rng.random()
            cand = None
            if sib and r < 0.4:
                cand = self.rng.choice(sib) + "x"
            elif sib and r < 0.8:
                cand = "x" + self.rng.choice(sib)
            elif self.all_keys:
                cand = self.rng.choice(self.all_keys)
            if cand and cand not in sib and cand != self.mid:
                k = cand
        self.all_keys.append(k)
        return k

    def tree(self):
        rng, p = self.rng, self.p
        lo, hi = p["n_states"]
        budget = [rng.randint(lo, hi)]
        root_kind = "parallel" if rng.random() < p["root_parallel"] else "compound"
        root = GNode(self.mid, root_kind, None)
        self._fill(root, budget)
        return root

    def _fill(self, node, budget):
        rng, p = self.rng, self.p
        if node.kind == "parallel":
            nreg = rng.randint(2, 3)
            for _ in range(nreg):
                budget[0] -= 1
                kind = "compound" if (node.depth + 1 < p["max_depth"] and rng.random() < 0.85) else "atomic"
                c = GNode(self.key(node), kind, node)
                node.children.append(c)
                if kind == "compound":
                    self._fill(c, budget)
            if p["hist_parallel"] and rng.random() < 0.6:
                h = GNode(self.key(node), "history", node)
                h.hist = rng.choice(("shallow", "deep"))
                node.children.append(h)
            return
        # compound
        nch = rng.randint(2, 4) if node.depth > 0 else rng.randint(2, 5)
        have_final = False
        for i in range(nch):
            budget[0] -= 1
            r = rng.random()
            kind = "atomic"
            if node.depth + 1 < p["max_depth"] and budget[0] > 2:
                if r < p["p_parallel"]:
                    kind = "parallel"
                elif r < p["p_parallel"] + p["p_compound"]:
                    kind = "compound"
            if kind == "atomic" and i > 0 and rng.random() < p["p_final"] and not have_final and (
                    node.depth > 0 or p.get("root_final", True)):
                kind = "final"
                have_final = True
            c = GNode(self.key(node), kind, node)
            node.children.append(c)
            if kind in ("compound", "parallel"):
                self._fill(c, budget)
        if node.depth > 0 and rng.random() < p["p_history"]:
            h = GNode(self.key(node), "history", node)
            h.hist = rng.choice(("shallow", "deep"))
            node.children.append(h)

    # -- logic helpers --------------------------------------------------------
    def act(self, name, eff=None, **kw):
        if name not in self.actions:
            d = {"eff": eff or []}
            d.update(kw)
            self.actions[name] = d
        return name

    def guard_ctx(self):
        rng = self.rng
        kind = rng.choice(("ctx_lt", "ctx_ge", "ctx_odd", "const_t", "const_f"))
        if kind == "const_t":
            name = "g_true"
            self.guards[name] = {"k": "const", "v": True}
        elif kind == "const_f":
            name = "g_false"
            self.guards[name] = {"k": "const", "v": False}
        elif kind == "ctx_odd":
            name = "g_n_odd"
            self.guards[name] = {"k": "ctx_odd", "key": "n"}
        else:
            v = rng.randint(1, 4)
            name = f"g_n_{kind[4:]}{v}"
            self.guards[name] = {"k": kind, "key": "n", "v": v}
        return name

    def guard_rich(self, nodes=None, depth=0):
        """A random guard formula (raw config) over named / parameterised / stateIn / raising / missing atoms."""
        rng, p = self.rng, self.p
        r = rng.random()
        if depth < 3 and r < 0.45:
            op = rng.choice(("and", "or", "not"))
            n = 1 if op == "not" else rng.randint(2, 3)
            kids = [self.guard_rich(nodes, depth + 1) for _ in range(n)]
            spell = rng.choice(("children", "params.guards", "params.guard" if op == "not" else "children"))
            if spell == "children":
                return {"type": op, "children": kids}
            if spell == "params.guards":
                return {"type": op, "params": {"guards": kids}}
            return {"type": op, "params": {"guard": kids[0]}}
        k = wchoice(rng, {"ctx": 5, "param": 2, "statein": 3, "raise": 1.2, "missing": p.get("w_missing_guard", 0.6)})
        if k == "ctx":
            g = self.guard_ctx()
            return g if rng.random() < 0.7 else {"type": g}
        if k == "param":
            if rng.random() < 0.45:
                # params that are falsy values (0, {}, [], "", False) are still params: the guard must receive them
                lit = rng.choice((0, {}, [], "", False))
                expect_same = rng.random() < 0.6
                name = "g_peq_" + {0: "zero", "": "empty"}.get(lit if isinstance(lit, (int, str)) and not isinstance(lit, bool) else None,
                                                              type(lit).__name__) + ("" if expect_same else "_ne")
                self.guards[name] = {"k": "params_eq", "v": lit if expect_same else "something-else"}
                params = lit
                if rng.random() < 0.4:
                    params = {"$fn": {"k": "const", "name": "gparams_falsy_" + type(lit).__name__, "v": lit}}
                return {"type": name, "params": params}
            want = rng.choice((True, False))
            name = "g_param"
            self.guards[name] = {"k": "param_truth", "key": "v"}
            params = {"v": want}
            if rng.random() < 0.4:
                params = {"$fn": {"k": "const", "name": f"gparams_{int(want)}", "v": {"v": want}}}
            return {"type": name, "params": params}
        if k == "statein" and nodes:
            tgt = rng.choice([n for n in nodes if n.kind != "history"])
            sp = rng.random()
            ident = ("#" + tgt.id if sp < 0.3 else tgt.id if sp < 0.55 else ".".join(tgt.id.split(".")[-2:]) if sp < 0.8
                     else tgt.id.split(".")[-1])
            form = rng.random()
            if form < 0.5:
                return {"type": "stateIn", "params": {"state": ident}}
            if form < 0.8:
                return {"type": "stateIn", "params": {"value": ident}}
            return {"type": "stateIn", "params": ident}
        if k == "raise":
            self.guards["g_raise"] = {"k": "raise"}
            return "g_raise"
        if k == "missing":
            return rng.choice(("g_missing1", "g_missing2"))
        return self.guard_ctx()

    def any_guard(self, nodes=None):
        if self.p.get("rich_guards"):
            return self.guard_rich(nodes)
        return self.guard_ctx()

    def new_tid(self):
        self.ntrans += 1
        return f"T{self.ntrans}"

    def extra_actions(self, where):
        """Optional non-marker actions appended to an action list."""
        rng, p = self.rng, self.p
        out = []
        if rng.random() < p["p_assign"]:
            if rng.random() < 0.5 and not p.get("assign_only"):
                out.append(self.act("inc_n", [["inc", "n", 1]]))
            else:
                out.append({"type": "xstate.assign", "params": {"assignment": {"$fn": {"k": "assign", "name": "asg_n", "ops": [["inc", "n", 1]]}}}})
        if rng.random() < p["p_raise"] and where != "exit":
            ev = rng.choice(self.raise_events)
            out.append({"type": "xstate.raise", "params": {"event": {"type": ev}}})
        if p.get("p_delayed_raise") and rng.random() < p["p_delayed_raise"] and where != "exit":
            ev = rng.choice(self.raise_events)
            d = rng.choice(p["delays"])
            prm = {"event": {"type": ev}, "delay": d}
            if rng.random() < 0.5:
                prm["id"] = f"snd{rng.randint(1, 3)}"
            out.append({"type": "xstate.raise", "params": prm})
        if p.get("p_list_ctx") and rng.random() < p["p_list_ctx"]:
            # a user action that mutates a nested value of the context IN PLACE (context["l"].append(...))
            out.append(self.act("app_l", [["app", "l", 1]]))
        if p.get("p_pop_ctx") and rng.random() < p["p_pop_ctx"]:
            # a user action that REMOVES a top-level key the initial context declares (and one that puts it back)
            out.append(self.act("pop_d", [["pop", "d"]]) if rng.random() < 0.65 else self.act("set_d", [["set", "d", "again"]]))
        if p.get("p_stop_act") and rng.random() < p["p_stop_act"] and where == "trans":
            out.append(self.act("stop_inside", [["stop"]]))
        if rng.random() < p["p_slow_act"]:
            us = rng.choice((1000, 5000, 10000, 20000, 50000))
            out.append(self.act(f"slow_{us}", [["slow", us]]))
        if rng.random() < p["p_async_act"]:
            if p.get("p_async_sleep") and rng.random() < p["p_async_sleep"]:
                us = rng.choice((2000, 5000, 10000, 20000))
                out.append(self.act(f"asleep_{us}", [["sleep", us]], **{"async": True}))
            else:
                k = rng.randint(1, 3)
                out.append(self.act(f"yield_{k}", [["yield", k]], **{"async": True}))
        if rng.random() < p["p_choose"] and (where == "trans" or not p.get("rich_guards")):
            self.nchoose = getattr(self, "nchoose", 0) + 1
            cid = self.nchoose
            if p.get("rich_guards"):
                conds = []
                for bi in range(rng.randint(1, 3)):
                    conds.append({("guard" if rng.random() < 0.7 else "cond"): self.guard_rich(getattr(self, "_nodes", None)),
                                  "actions": [self.act(f"ch.{cid}.{bi}")]})
                conds.append({"actions": [self.act(f"ch.{cid}.{len(conds)}")]})
                out.append({"type": "xstate.choose", "params": {"conditions": conds}})
            else:
                g = self.guard_ctx()
                out.append({"type": "xstate.choose", "params": {"conditions": [
                    {"guard": g, "actions": [self.act("ch_a")]}, {"actions": [self.act("ch_b")]}]}})
        if rng.random() < p["p_pure"]:
            out.append({"type": "xstate.pure", "params": {"get": {"$fn": {"k": "pure", "name": "pure1", "ret": [self.act("pu_a"), self.act("pu_b")]}}}})
        if rng.random() < p["p_enq"]:
            self.nenq = getattr(self, "nenq", 0) + 1
            eid = self.nenq
            if p.get("rich_guards"):
                if where == "trans":
                    checks = [[self.guard_rich(getattr(self, "_nodes", None)), self.act(f"eq.{eid}.{ci}")] for ci in range(rng.randint(1, 3))]
                    out.append({"type": "xstate.enqueueActions", "params": {"callback": {"$fn": {"k": "enq", "name": f"enq{eid}", "items": [], "checks": checks}}}})
            else:
                out.append({"type": "xstate.enqueueActions", "params": {"callback": {"$fn": {"k": "enq", "name": f"enq{eid}", "items": [self.act("eq_a")], "checks": [[self.guard_ctx(), self.act("eq_b")]]}}}})
        return out

    # -- targets ----------------------------------------------------------------
    def pick_target(self, src, nodes, root):
        rng, p = self.rng, self.p
        for _ in range(8):
            k = wchoice(rng, p["w_target"])
            if k == "none":
                return None, False
            if k in ("self", "self_re") and src is root and not p["w_target"].get("root"):
                continue
            if k == "self":
                return src, False
            if k == "self_re":
                return src, True
            if k == "root":
                return root, False
            if k == "sibling" and src.parent is not None:
                sibs = [c for c in src.parent.children if c is not src and c.kind != "history"]
                if sibs:
                    return rng.choice(sibs), False
            if k == "any":
                c = [n for n in nodes if n.kind != "history" and n is not root]
                if c:
                    return rng.choice(c), False
            if k == "ancestor":
                a = [x for x in src.ancestors() if x is not root]
                if a:
                    return rng.choice(a), False
            if k == "descendant":
                d = [x for x in src.walk() if x is not src and x.kind != "history"]
                if d:
                    return rng.choice(d), False
            if k == "own_history":
                # the history child of the source itself or of one of its ancestors (a state restoring its own subtree)
                h = [c for a in [src] + list(src.ancestors()) for c in a.children if c.kind == "history"]
                if h:
                    return rng.choice(h), False
            if k == "history":
                h = [n for n in nodes if n.kind == "history"]
                if h:
                    return rng.choice(h), False
        return None, False

    def tcfg(self, src, target, reenter, guard=None, extra=True, where="trans"):
        tid = self.new_tid()
        acts = [self.act(f"tr.{tid}")]
        if extra:
            acts += self.extra_actions(where)
        c = {"actions": acts}
        if target is not None:
            c["target"] = "#" + target.id
        if reenter:
            c["reenter"] = True
        if guard is not None:
            c["guard" if self.rng.random() < 0.8 else "cond"] = guard
        self.info["trans"][tid] = {"src": src.id, "target": target.id if target is not None else None}
        return c

    # -- assemble -----------------------------------------------------------------
    def build(self):
        rng, p = self.rng, self.p
        root = self.tree()
        nodes = list(root.walk())
        self._nodes = nodes
        for n in nodes:
            c = n.cfg
            if n.kind == "history":
                c["type"] = "history"
                c["history"] = n.hist
                if rng.random() < 0.4:
                    sibs = [x for x in n.parent.children if x.kind != "history"]
                    if rng.random() < 0.4:
                        # a default that names a state nested deeper inside the parent
                        deep = [x for x in n.parent.walk() if x is not n.parent and x.kind != "history" and x.parent is not n.parent]
                        sibs = deep or sibs
                    if sibs:
                        c["target"] = "#" + rng.choice(sibs).id
                self.info["hist"].append(n.id)
                continue
            if n.kind == "final":
                c["type"] = "final"
                if rng.random() < p["p_out"]:
                    c["output"] = {"from": n.key}
                    if p.get("p_callable_output") and rng.random() < p["p_callable_output"]:
                        # a dynamic output: a callable of {context, event}, resolved when the state completes
                        c["output"] = {"$fn": {"k": "const", "name": f"out_{n.key}", "v": {"from": n.key, "dyn": True}}}
                    if p.get("p_falsy_output") and rng.random() < p["p_falsy_output"]:
                        # a legitimate result that happens to be falsy (0, False, "", [], {})
                        c["output"] = rng.choice((0, False, "", [], {}))
                self.info["finals"].append(n.id)
            if n.kind == "parallel":
                c["type"] = "parallel"
            c["entry"] = [self.act(f"en.{n.id}")]
            c["exit"] = [self.act(f"ex.{n.id}")]
            if rng.random() < p["p_extra_entry"]:
                c["entry"] += self.extra_actions("entry")
            if rng.random() < p["p_extra_entry"] / 2:
                c["exit"] += self.extra_actions("exit")
            if n.kind == "compound":
                real = [x for x in n.children if x.kind not in ("history",)]
                nonfinal = [x for x in real if x.kind != "final"] or real
                c["initial"] = rng.choice(nonfinal).key if rng.random() < 0.85 else rng.choice(real).key
        for n in nodes:
            if n.kind in ("history", "final"):
                continue
            c = n.cfg
            on = {}
            evs = list(self.events) + (self.raise_events if p["p_raise"] > 0 else [])
            for ev in evs:
                if rng.random() >= p["p_trans"] * (0.6 if ev.startswith("R") else 1.0):
                    continue
                if p["p_forbid"] and rng.random() < p["p_forbid"]:
                    on[ev] = None
                    continue
                k = 2 if rng.random() < p["p_two"] else 1
                lst = []
                for j in range(k):
                    tgt, re = self.pick_target(n, nodes, root)
                    g = self.any_guard(nodes) if (rng.random() < p["p_guard"] or (k == 2 and j == 0)) else None
                    lst.append(self.tcfg(n, tgt, re, g, extra=not ev.startswith("R")))
                on[ev] = lst if (k > 1 or rng.random() < 0.5) else lst[0]
            pw = p.get("p_wildcard") or 0.0
            if pw:
                # wildcard and partial descriptors next to (or instead of) exact keys: "E1.*" also matches E1 itself
                for wk in ("*", rng.choice(self.events) + ".*"):
                    if rng.random() >= pw:
                        continue
                    if rng.random() < max(p["p_forbid"], 0.12):
                        on[wk] = None
                        continue
                    k = 2 if rng.random() < p["p_two"] else 1
                    lst = []
                    for j in range(k):
                        tgt, re = self.pick_target(n, nodes, root)
                        g = self.any_guard(nodes) if (rng.random() < p["p_guard"] or (k == 2 and j == 0)) else None
                        lst.append(self.tcfg(n, tgt, re, g, extra=True))
                    on[wk] = lst if (k > 1 or rng.random() < 0.5) else lst[0]
            if on:
                c["on"] = on
            if n is not root and rng.random() < p["p_always"]:
                v = rng.randint(1, 3)
                gname = f"g_a_lt{v}"
                self.guards[gname] = {"k": "ctx_lt", "key": "a", "v": v}
                tgt, re = self.pick_target(n, nodes, root)
                tc = self.tcfg(n, tgt, re, None, extra=False)
                tc["guard"] = gname
                if p.get("assign_only"):
                    tc["actions"].append({"type": "xstate.assign", "params": {"assignment": {"$fn": {"k": "assign", "name": "asg_a", "ops": [["inc", "a", 1]]}}}})
                else:
                    tc["actions"].append(self.act("inc_a", [["inc", "a", 1]]))
                c["always"] = [tc]
            if n.kind in ("compound", "parallel") and n is not root and rng.random() < p["p_on_done"]:
                has_final = any(x.kind == "final" for x in n.walk())
                if has_final:
                    tgt, re = self.pick_target(n, nodes, root)
                    if tgt is n or rng.random() < p.get("p_ondone_targetless", 0.0):
                        tgt = None
                    c["onDone"] = self.tcfg(n, tgt, False, None, extra=False)
            if p["p_after"] and n is not root and rng.random() < p["p_after"]:
                self.add_after(n, nodes, root)
            if p["p_invoke"] and n is not root and rng.random() < p["p_invoke"]:
                self.add_invoke(n, nodes, root)
                if p.get("p_multi_invoke") and rng.random() < p["p_multi_invoke"]:
                    self.add_invoke(n, nodes, root)   # several invokes on one state
        cfg = self.emit(root)
        cfg["context"] = {"n": 0, "a": 0}
        if p.get("p_list_ctx"):
            cfg["context"]["l"] = []
        if p.get("p_pop_ctx"):
            cfg["context"]["d"] = "declared"
        lo, hi = p["max_iterations"]
        cfg["maxIterations"] = rng.randint(lo, hi)
        if rng.random() < p["p_machine_output"]:
            cfg["output"] = {"machine": True}
            if p.get("p_falsy_output") and rng.random() < p["p_falsy_output"]:
                cfg["output"] = rng.choice((0, False, "", [], {}))
        logic = {"actions": self.actions, "guards": self.guards, "services": self.services, "delays": self.delays}
        return {"machine": cfg, "logic": logic, "info": self.info, "children": self.children}

    def add_after(self, n, nodes, root):
        rng, p = self.rng, self.p
        after = {}
        k = 1 if rng.random() > 0.25 else 2
        used = set()
        for _ in range(k):
            d = rng.choice(p["delays"])
            if p.get("p_zero_delay") and rng.random() < p["p_zero_delay"]:
                d = 0   # due immediately (a named / computed delay may legitimately resolve to 0)
            if d in used:
                continue
            used.add(d)
            key = str(d)
            if rng.random() < p["p_named_delay"]:
                key = f"D{d}"
                if p.get("p_ctx_delay") and d and rng.random() < p["p_ctx_delay"]:
                    # computed from the context at entry: 10 ms + 10 ms per unit of n (a back-off that grows)
                    key = "Dctx"
                    self.delays[key] = {"$fn": {"k": "ctx", "name": "delay_Dctx", "key": "n", "mul": 10, "add": 10}}
                    d = None
                elif rng.random() < 0.5:
                    self.delays[key] = d
                else:
                    self.delays[key] = {"$fn": {"k": "const", "name": f"delay_{key}", "v": d}}
            ncand = 2 if rng.random() < p["p_after_two"] else 1
            lst = []
            for j in range(ncand):
                tgt, re = self.pick_target(n, nodes, root)
                if d == 0:
                    # a zero delay must leave the state, or it would fire in a tight loop for ever
                    outs = [x for x in nodes if x.kind != "history" and x is not n and not x.id.startswith(n.id + ".")
                            and not n.id.startswith(x.id + ".") and x is not root]
                    if not outs:
                        continue
                    tgt, re = rng.choice(outs), False
                g = (self.any_guard(nodes) if p.get("rich_guards") else self.guard_ctx()) if (ncand == 2 and j == 0) or rng.random() < 0.15 else None
                lst.append(self.tcfg(n, tgt, re, g))
            if not lst:
                continue
            after[key] = lst if ncand > 1 else lst[0]
            self.info["after"].append({"state": n.id, "key": key, "ms": d})
        n.cfg["after"] = after

    def child_machine(self, sname):
        """A small child machine for `invoke: {src: <machine>}`: it works for a while (a periodic timer keeps producing
        observable actions as long as it lives), may finish on its own after a delay with an output, and may own a
        grandchild actor - so a child that outlives its invoking state, or is forgotten un-stopped, shows in the trace."""
        rng = self.rng
        cid = f"k{len(self.children) + 1}"
        acts = {}

        def A(nm):
            acts[nm] = {"eff": []}
            return nm
        run = {"entry": [A(f"en.{cid}.run")], "exit": [A(f"ex.{cid}.run")],
               "on": {"POKE": {"actions": [A(f"tr.{cid}.poke")]}}, "after": {}}
        guards = {}
        if rng.random() < 0.7:
            # a bounded number of ticks: every tick costs the sync engine a real thread
            guards["g_ticks"] = {"k": "ctx_lt", "key": "n", "v": rng.choice((3, 5, 8))}
            acts["inc_n"] = {"eff": [["inc", "n", 1]]}
            run["after"][str(rng.choice((10, 20, 30)))] = {"target": f"#{cid}.run", "reenter": True, "guard": "g_ticks",
                                                           "actions": [A(f"tr.{cid}.tick"), "inc_n"]}
        fin_after = rng.choice((None, 15, 25, 40, 60))
        if fin_after is not None and str(fin_after) not in run["after"]:
            run["after"][str(fin_after)] = {"target": f"#{cid}.end", "actions": [A(f"tr.{cid}.fin")]}
        if not run["after"]:
            del run["after"]
        logic = {"actions": acts, "guards": guards, "services": {}, "delays": {}}
        if rng.random() < 0.35:
            gid = f"g{len(self.children) + 1}"
            gacts = {f"en.{gid}.run": {"eff": []}, f"tr.{gid}.tick": {"eff": []}, "inc_n": {"eff": [["inc", "n", 1]]}}
            gcfg = {"id": gid, "initial": "run", "context": {"n": 0}, "states": {
                "run": {"entry": [f"en.{gid}.run"], "after": {"20": {"target": f"#{gid}.run", "reenter": True, "guard": "g_ticks",
                                                                      "actions": [f"tr.{gid}.tick", "inc_n"]}}}}}
            self.children[gid] = {"machine": gcfg, "logic": {"actions": gacts, "guards": {"g_ticks": {"k": "ctx_lt", "key": "n", "v": 6}},
                                                              "services": {}, "delays": {}}}
            logic["services"][gid] = {"k": "machine", "ref": gid}
            run["entry"].append({"type": "xstate.spawnChild", "params": {"src": gid, "id": "gc"}})
        end = {"type": "final", "entry": [A(f"en.{cid}.end")]}
        if rng.random() < 0.6:
            end["output"] = {"from": cid}
        states = {"run": run, "end": end}
        if rng.random() < 0.3:
            # the child FAILS on its own: it reaches a state whose invoked service raises and declares no onError
            logic["services"]["kfail"] = {"k": "sync", "plan": [{"dur": 0, "out": "raise", "yields": 0}]}
            states["boom"] = {"entry": [A(f"en.{cid}.boom")], "invoke": {"src": "kfail", "id": f"{cid}_fail"}}
            run.setdefault("after", {})
            d_ = str(rng.choice((12, 22, 35)))
            if d_ not in run["after"]:
                run["after"][d_] = {"target": f"#{cid}.boom", "actions": [A(f"tr.{cid}.boom")]}
        cfg = {"id": cid, "initial": "run", "context": {"n": 0}, "states": states}
        self.children[cid] = {"machine": cfg, "logic": logic}
        return cid

    def add_invoke(self, n, nodes, root):
        rng, p = self.rng, self.p
        kind = rng.choice(p["svc_kinds"])
        sname = f"svc{len(self.services)+1}"
        plan = []
        for _ in range(rng.randint(1, 3)):
            out = wchoice(rng, {"return": 6, "raise": 3, "never": 1 if kind == "coro" else 0})
            dur = rng.choice((0, 0, 10000, 20000, 30000, 50000)) if kind == "coro" else rng.choice((0, 0, 5000))
            plan.append({"dur": dur, "out": out, "yields": rng.randint(0, 2)})
        self.services[sname] = {"k": kind, "plan": plan}
        if kind == "machine":
            self.services[sname] = {"k": "machine", "ref": self.child_machine(sname)}
        inv = {"src": sname, "id": f"inv_{n.key}"}
        if any(i["id"] == inv["id"] for i in self.info["invoke"]):
            # hostile names repeat keys: two invokes that may be active together need distinct ids
            inv["id"] = f"inv_{n.key}_{len(self.info['invoke']) + 1}"
        if p.get("p_shared_invoke_id") and self.info["invoke"] and rng.random() < p["p_shared_invoke_id"]:
            # two different states declaring the same explicit invoke id (e.g. `loading` and `retrying` both invoke "fetch");
            # only between siblings of a compound parent: two invokes that can be active at once must have distinct ids
            sibs = [i for i in self.info["invoke"] if n.parent is not None and n.parent.kind == "compound"
                    and i["state"].rsplit(".", 1)[0] == n.parent.id and i["state"] != n.id]
            mine = {i["id"] for i in self.info["invoke"] if i["state"] == n.id}
            sibs = [i for i in sibs if i["id"] not in mine]
            if sibs:
                inv["id"] = rng.choice(sibs)["id"]
        if rng.random() < 0.5:
            inv["input"] = {"k": n.key}
        tgt, re = self.pick_target(n, nodes, root)
        inv["onDone"] = self.tcfg(n, tgt, re, None)
        if p.get("rich_guards") and rng.random() < 0.5:
            # a guarded first candidate (any atom, also raising ones) in front of the unguarded fallback
            tgt2, re2 = self.pick_target(n, nodes, root)
            inv["onDone"] = [self.tcfg(n, tgt2, re2, self.any_guard(nodes)), inv["onDone"]]
        if rng.random() < 0.7:
            tgt, re = self.pick_target(n, nodes, root)
            inv["onError"] = self.tcfg(n, tgt, re, None)
            if p.get("rich_guards") and rng.random() < 0.5:
                tgt2, re2 = self.pick_target(n, nodes, root)
                inv["onError"] = [self.tcfg(n, tgt2, re2, self.any_guard(nodes)), inv["onError"]]
        if "invoke" in n.cfg:
            prev = n.cfg["invoke"]
            n.cfg["invoke"] = (prev if isinstance(prev, list) else [prev]) + [inv]
        else:
            n.cfg["invoke"] = inv
        self.info["invoke"].append({"state": n.id, "id": inv["id"], "src": sname, "kind": kind})

    def emit(self, n):
        c = dict(n.cfg)
        if n.parent is None:
            c["id"] = n.key
        if n.children:
            c["states"] = {ch.key: self.emit(ch) for ch in n.children}
        return c


def gen_events(rng, events, n, p_unknown=0.05):
    out = []
    for i in range(n):
        ev = rng.choice(events) if rng.random() > p_unknown else "E_unknown"
        out.append(ev)
    return out
