"""C13 - every macrostep terminates and never starves the host."""
from __future__ import annotations

from .model import Model
from .tracewalk import K, SEQ, T, Violation, Walk

MS = 1000


def _mk(name, acts):
    acts[name] = {"eff": []}
    return name


def build_cycle(rng, template, Kn, M, trigger):
    """Returns (machine config, logic, info).  Kn = natural length (None = endless), M = maxIterations."""
    acts, guards = {}, {}
    guards["g_more"] = {"k": "ctx_lt", "key": "n", "v": Kn if Kn is not None else 10 ** 9}
    inc = {"type": "xstate.assign", "params": {"assignment": {"$fn": {"k": "assign", "name": "asg_n", "ops": [["inc", "n", 1]]}}}}
    acts["inc_n"] = {"eff": [["inc", "n", 1]]}
    use_assign = rng.random() < 0.5
    INC = inc if use_assign else "inc_n"
    states = {}
    probe = {"PROBE": {"target": "#m.Z", "actions": [_mk("tr.TP", acts)]}}
    burst = {"B": {"actions": [_mk("tr.TB", acts)]}}
    if template == "always":
        states["A"] = {"entry": [_mk("en.m.A", acts)], "exit": [_mk("ex.m.A", acts)],
                       "always": [{"guard": "g_more", "target": "#m.B", "actions": [_mk("tr.T1", acts), INC]}]}
        states["B"] = {"entry": [_mk("en.m.B", acts)], "exit": [_mk("ex.m.B", acts)],
                       "always": [{"target": "#m.A", "actions": [_mk("tr.T2", acts)]}]}
        loop_entry = "A"
        per_round = 2
    elif template == "always_self":
        states["A"] = {"entry": [_mk("en.m.A", acts)], "exit": [_mk("ex.m.A", acts)],
                       "always": [{"guard": "g_more", "actions": [_mk("tr.T1", acts), INC]}]}
        loop_entry = "A"
        per_round = 1
    elif template == "raise":
        states["A"] = {"entry": [_mk("en.m.A", acts), {"type": "xstate.raise", "params": {"event": {"type": "LOOP"}}}],
                       "exit": [_mk("ex.m.A", acts)],
                       "on": {"LOOP": [{"guard": "g_more", "actions": [_mk("tr.T1", acts), INC, {"type": "xstate.raise", "params": {"event": {"type": "LOOP"}}}]}]}}
        loop_entry = "A"
        per_round = 1
    elif template == "raise_fan":
        # every round raises TWO events: depth grows by one per round, the number of events doubles
        R = {"type": "xstate.raise", "params": {"event": {"type": "LOOP"}}}
        states["A"] = {"entry": [_mk("en.m.A", acts), R], "exit": [_mk("ex.m.A", acts)],
                       "on": {"LOOP": [{"guard": "g_more", "actions": [_mk("tr.T1", acts), INC, R, dict(R)]}]}}
        loop_entry = "A"
        per_round = 1
    elif template == "raise_reenter":
        states["A"] = {"entry": [_mk("en.m.A", acts), {"type": "xstate.raise", "params": {"event": {"type": "LOOP"}}}],
                       "exit": [_mk("ex.m.A", acts)],
                       "on": {"LOOP": [{"guard": "g_more", "target": "#m.A", "reenter": True, "actions": [_mk("tr.T1", acts), INC]}]}}
        loop_entry = "A"
        per_round = 1
    elif template == "ondone":
        states["A"] = {"entry": [_mk("en.m.A", acts)], "exit": [_mk("ex.m.A", acts)], "initial": "F",
                       "states": {"F": {"type": "final", "entry": [_mk("en.m.A.F", acts)], "exit": [_mk("ex.m.A.F", acts)]}},
                       "onDone": {"guard": "g_more", "target": "#m.A", "reenter": True, "actions": [_mk("tr.T1", acts), INC]}}
        loop_entry = "A"
        per_round = 1
    elif template in ("pure_self", "enq_self"):
        typ = "xstate.pure" if template == "pure_self" else "xstate.enqueueActions"
        key = "get" if template == "pure_self" else "callback"
        states["A"] = {"entry": [_mk("en.m.A", acts), {"type": typ, "params": {key: {"$fn": {"k": template, "name": "selfexp", "limit": Kn, "marker": _mk("xm", acts)}}}}],
                       "exit": [_mk("ex.m.A", acts)]}
        loop_entry = "A"
        per_round = 1
    else:
        raise ValueError(template)
    delays = {}
    if template in ("raise", "raise_reenter", "raise_fan") and rng.random() < 0.35:
        # the feedback edge spelled with an explicit ZERO delay (literal, or a named delay resolving to 0): still the same chain
        dz = rng.choice((0, "D0"))
        delays["D0"] = 0

        def zero(c):
            for f in ("entry",):
                for a in c.get(f) or []:
                    if isinstance(a, dict) and a.get("type") == "xstate.raise":
                        a["params"]["delay"] = dz
            for tl in (c.get("on") or {}).values():
                for t in tl:
                    for a in t.get("actions") or []:
                        if isinstance(a, dict) and a.get("type") == "xstate.raise":
                            a["params"]["delay"] = dz
        zero(states["A"])
    states["Z"] = {"entry": [_mk("en.m.Z", acts)], "exit": [_mk("ex.m.Z", acts)], "on": {"PROBE": {"actions": [_mk("tr.TP2", acts)]}}}
    states["I"] = {"entry": [_mk("en.m.I", acts)], "exit": [_mk("ex.m.I", acts)], "on": {"GO": {"target": "#m." + loop_entry, "actions": [_mk("tr.TG", acts)]}}}
    cfg = {"id": "m", "initial": loop_entry if trigger == "start" else "I", "context": {"n": 0}, "maxIterations": M,
           "entry": [_mk("en.m", acts)], "exit": [_mk("ex.m", acts)], "on": dict(probe, **burst), "states": states}
    return cfg, {"actions": acts, "guards": guards, "services": {}, "delays": delays}, {"per_round": per_round}


def gen_c13(engine):
    def g(seed):
        import random
        rng = random.Random(seed * 7919 + 13)
        template = rng.choice(("always", "always_self", "raise", "raise_reenter", "raise_fan", "ondone", "pure_self", "enq_self"))
        M = rng.choice((3, 4, 5, 8, 12, 20, 40))
        rel = rng.choice(("below", "below", "edge-", "edge", "edge+", "above", "endless"))
        Kn = {"below": max(1, M - 2 - rng.randint(0, max(0, M - 3))), "edge-": max(1, M - 2), "edge": M, "edge+": M + 1,
              "above": M * 3 + 7, "endless": None}[rel]
        trigger = rng.choice(("start", "event"))
        cfg, logic, info = build_cycle(rng, template, Kn, M, trigger)
        ops = [{"op": "start"}]
        if trigger == "event":
            ops.append({"op": "send", "event": "GO", "tag": 1})
        ops.append({"op": "send", "event": "PROBE", "tag": 2})
        ops.append({"op": "send", "event": "PROBE", "tag": 3})
        if rng.random() < 0.5:
            nb = rng.choice((M - 1, M, M + 1, M + 5, 2 * M + 3))
            ops.append({"op": "send_events", "events": [{"type": "B", "tag": 100 + i} for i in range(max(1, nb))]})
            ops.append({"op": "send", "event": "PROBE", "tag": 4})
        # many SEPARATE short chains on one interpreter: every one of them has its own bound ("chains shorter than the bound
        # run to their natural end"), however many have run before
        nshort = 0
        if rng.random() < 0.4:
            logic["actions"]["tr.TSa"] = {"eff": []}
            logic["actions"]["tr.TSb"] = {"eff": []}
            cfg["on"]["S"] = {"actions": ["tr.TSa", {"type": "xstate.raise", "params": {"event": {"type": "S2"}}}]}
            cfg["on"]["S2"] = {"actions": ["tr.TSb"]}
            nshort = rng.choice((M, M + 2, 2 * M + 3))
            if rng.random() < 0.5:
                # ... delivered as ONE send_events batch: each event of the batch still starts a chain of its own
                ops.append({"op": "send_events", "events": [{"type": "S", "tag": 5000 + i} for i in range(nshort)]})
            else:
                for i in range(nshort):
                    ops.append({"op": "send", "event": {"type": "S", "tag": 5000 + i}})
            ops.append({"op": "send", "event": "PROBE", "tag": 8})
        inflight = engine == "async" and rng.random() < 0.35
        if inflight:
            # "the bound never throttles or discards events sent from outside" also while a macrostep is IN FLIGHT:
            # an awaiting action keeps the run loop inside one event while another task sends more than maxIterations events
            logic["actions"]["asleep_20000"] = {"eff": [["sleep", 20000]], "async": True}
            logic["actions"]["tr.TS"] = {"eff": []}
            cfg["on"]["SLOW"] = {"actions": ["tr.TS", "asleep_20000"]}
            t0 = 100 * MS
            for rep in range(rng.choice((1, 1, 2))):
                nb2 = rng.choice((M + 1, M + 3, 2 * M + 2))
                ops.append({"op": "send", "event": "SLOW", "tag": 50 + rep, "t": t0, "client": 0, "wait": False, "obs": False})
                if rng.random() < 0.5:
                    ops.append({"op": "send_events", "events": [{"type": "B", "tag": 1000 * (rep + 1) + i} for i in range(nb2)],
                                "t": t0 + 1 * MS, "client": 1, "wait": False, "obs": False})
                else:
                    for i in range(nb2):
                        ops.append({"op": "send", "event": {"type": "B", "tag": 1000 * (rep + 1) + i}, "t": t0 + 1 * MS + i * 100, "client": 1,
                                    "wait": False, "obs": False})
                t0 += 100 * MS
            ops.append({"op": "send", "event": "PROBE", "tag": 7, "t": t0 + 200 * MS, "client": 0})
        sc = {"format": 1, "engine": engine, "seed": seed, "salt": seed % 997, "machine": cfg, "logic": logic, "children": {},
              "ops": ops, "sched": {"tie_seed": seed % 1009}, "line_monitor": True,
              "c13": {"template": template, "K": Kn, "M": M, "rel": rel, "trigger": trigger, "per_round": info["per_round"],
                      "inflight": inflight, "short_chains": nshort}}
        n_ext = sum(len(o["events"]) if o.get("op") == "send_events" else 1 for o in ops)
        # budget: every external event may legitimately run a chain of up to ~2M rounds before it is cut
        sc["line_cap"] = 2500 * (2 * M + 60) * (n_ext + 2) + 150_000
        sc["budget"] = 400 * (2 * M + 60) * (n_ext + 2) + 4000
        sc["max_handles"] = 2_000_000
        return sc
    return g


def oracle_c13(sc, res):
    info = sc["c13"]
    M, Kn, template = info["M"], info["K"], info["template"]
    m = Model(sc["machine"])
    vios = []
    sig = {"engine": sc["engine"], "template": template, "rel": info["rel"], "trigger": info["trigger"]}
    if res.meta.get("abort"):
        vios.append(Violation("C13", "non-termination", dict(sig, abort=res.meta["abort"]),
                              f"{template} cycle (K={Kn}, maxIterations={M}): the run was aborted by the harness budget ({res.meta['abort']}): "
                              f"start()/send() did not return / the loop did not go idle within {res.meta.get('lines_total')} repo lines"))
        return vios
    w = Walk(sc, res, model=m)
    start_ret = w.ops_ret.get(0)
    if start_ret is None:
        return vios
    # rounds of the chain, per macrostep: the longest run of chain rounds not interrupted by an external
    # event being received (every external event legitimately gets a fresh bound)
    rounds = 0
    cur = 0
    total_rounds = 0
    for r in res.trace:
        if (r[K] == "recv" and r[6] is not None) or r[K] == "op-call":
            cur = 0
        elif (r[K] == "ucall" and r[4] in ("pure-self", "enq-self")) or (r[K] == "act" and r[5] == "tr.T1"):
            cur += 1
            total_rounds += 1
            rounds = max(rounds, cur)
    cut_logged = any(r[K] == "log" and ("Exceeded" in (r[7] or "") or "exceeded" in (r[7] or "")) for r in res.trace)
    natural = Kn if Kn is not None else None
    bound_hi = 2 * M + 10 if template not in ("pure_self", "enq_self") else 60  # nested expansion has its own depth bound (50)
    pr = info["per_round"]
    if natural is not None and (natural * pr <= M - 2 if template not in ("pure_self", "enq_self") else natural <= 40):
        if total_rounds != natural:
            vios.append(Violation("C13", "short-chain-cut", dict(sig, cut_logged=cut_logged),
                                  f"{template} chain of natural length {natural} (< maxIterations {M}) ran {rounds} rounds"))
    elif natural is None or (natural * pr > bound_hi):
        if rounds * (info["per_round"] if template not in ("pure_self", "enq_self") else 1) > bound_hi:
            vios.append(Violation("C13", "chain-not-cut-at-bound", sig,
                                  f"{template} chain ran {rounds} rounds with maxIterations {M} (allowed at most {bound_hi})"))
        elif template not in ("pure_self", "enq_self") and rounds * info["per_round"] < M - 1:
            vios.append(Violation("C13", "chain-cut-too-early", sig, f"{template} chain cut after {rounds} rounds, maxIterations {M}"))
        if not cut_logged:
            vios.append(Violation("C13", "cut-without-error-log", sig, f"{template} chain stopped after {rounds} rounds without an error log"))
    # afterwards: legal configuration and the interpreter still answers
    fin = w.final_obs("final")
    if fin is not None:
        probs = m.legal_problems(fin["cfg"])
        if probs:
            vios.append(Violation("C13", "illegal-configuration-after-cut", sig, f"final configuration {fin['cfg']}: {probs}"))
        if fin["status"] == "running":
            tags = [r[6] for r in res.trace if r[K] == "recv" and r[5] == "PROBE"]
            sent = [op["tag"] for op in sc["ops"] if op.get("event") == "PROBE"]
            answered = any(r[K] == "act" and r[5] in ("tr.TP", "tr.TP2") for r in res.trace)
            # the first probe may legitimately be consumed while the chain is being cut; the last must be answered
            if sent and sent[-1] not in tags:
                vios.append(Violation("C13", "unresponsive-after-cut", dict(sig, cut_logged=cut_logged),
                                      f"PROBE tags sent {sent}, received {tags}: the interpreter no longer answers"))
            elif sent and not answered:
                vios.append(Violation("C13", "unresponsive-after-cut", dict(sig, cut_logged=cut_logged), "PROBE received but no PROBE transition ran"))
            # separate short chains: each S raises one S2, and each S2 must be handled
            if info.get("short_chains"):
                n_s = sum(1 for r in res.trace if r[K] == "act" and r[5] == "tr.TSa")
                n_s2 = sum(1 for r in res.trace if r[K] == "act" and r[5] == "tr.TSb")
                if n_s2 < n_s:
                    vios.append(Violation("C13", "short-chain-cut", dict(sig, cut_logged=cut_logged, separate_chains=True),
                                          f"{n_s} separate one-step chains (maxIterations {M}) but only {n_s2} follow-up events were handled"))
            # external events sent one by one while a macrostep was in flight: every one processed
            singles = [op["event"]["tag"] for op in sc["ops"] if op.get("op") == "send" and isinstance(op.get("event"), dict)
                       and op["event"].get("type") == "B"]
            if singles:
                gotb = {r[6] for r in res.trace if r[K] == "recv" and r[5] == "B"}
                missing = [t for t in singles if t not in gotb]
                if missing:
                    vios.append(Violation("C13", "bound-discarded-external-events",
                                          dict(engine=sc["engine"], burst_over_bound=len(singles) > M, chain_cut_before=cut_logged and rounds > 0),
                                          f"{len(singles)} external events sent while a macrostep was in flight (maxIterations {M}): {len(missing)} never processed"))
            # external burst: every event processed
            for op in sc["ops"]:
                if op.get("op") == "send_events":
                    want = [e["tag"] for e in op["events"]]
                    got = [r[6] for r in res.trace if r[K] == "recv" and r[6] is not None]
                    missing = [t for t in want if t not in got]
                    if missing:
                        vios.append(Violation("C13", "bound-discarded-external-events",
                                              dict(engine=sc["engine"], burst_over_bound=len(want) > M, chain_cut_before=cut_logged and rounds > 0),
                                              f"burst of {len(want)} external events with maxIterations {M}: {len(missing)} never processed"))
    return vios


def stats_c13(sc, res):
    i = sc["c13"]
    return {"tmpl_" + i["template"]: 1, "rel_" + i["rel"]: 1, "inflight_burst": int(bool(i.get("inflight"))), "separate_short_chains": int(bool(i.get("short_chains"))), "repo_lines": int(res.meta.get("lines_total") or 0),
            "max_lines_one_loop_iteration": 0, "aborted": 1 if res.meta.get("abort") else 0}
