"""Recorder: the single sink for everything observable during a run.

Every record is a tuple (seq, t_us, worker, kind, *fields).  `seq` is the
simulator's global event number.  Nothing here draws from a PRNG or reads a
real clock.
"""
from __future__ import annotations

from .vloop import SimAbort


class InjectedFault(RuntimeError):
    """Exception raised by generated user code when the fault plan says so."""


def ev_type(ev):
    return getattr(ev, "type", None)


def ev_tag(ev):
    """Identity tag of an event: harness-sent events carry payload['tag']."""
    p = getattr(ev, "payload", None)
    if isinstance(p, dict):
        return p.get("tag")
    return None


def ev_data(ev):
    if hasattr(ev, "data") and not hasattr(ev, "payload"):
        d = ev.data
        if isinstance(d, BaseException):
            return ("exc", type(d).__name__, str(d))
        return d
    return None


def cfg_ids(nodes):
    try:
        return tuple(sorted(n.id for n in nodes))
    except Exception:
        return ("<unreadable>",)


class Env:
    """Clock / worker identity provider (implemented by each executor)."""

    def now(self):
        return 0

    def worker(self):
        return "main"

    def busy(self, us):
        pass


class Recorder:
    def __init__(self, env, budget=60_000, faults=None):
        self.env = env
        self.trace = []
        self.seq = 0
        self.budget = budget
        self.ticks = 0
        self.closed = False
        self.calls = 0  # index of generated user-callable invocations
        self.faults = dict(faults or {})  # call index -> kind filter (or True)
        self.faults_fired = []
        self.always = set()  # (kind, name) pairs that raise at every call
        self.occ_faults = set()  # (kind, name, k): the k-th call of that callable raises (independent of other calls' indices)
        self.occ_seen = {}
        self.abort_cb = None
        self.call_kinds = []  # kind per call index (for enumeration runs)
        self.keep_call_kinds = False

    # -- core -------------------------------------------------------------
    def rec(self, kind, *fields):
        if self.closed:
            return
        self.seq += 1
        self.trace.append((self.seq, self.env.now(), self.env.worker(), kind) + fields)

    def tick(self):
        self.ticks += 1
        if self.ticks > self.budget and not self.closed:
            if self.abort_cb:
                self.abort_cb("hook_budget")
            raise SimAbort("hook budget exceeded")

    def user_call(self, kind, name):
        """Called at the start of every generated user callable.  May raise."""
        self.tick()
        self.calls += 1
        idx = self.calls
        if self.keep_call_kinds:
            self.call_kinds.append((kind, name))
        if self.occ_faults:
            key = (kind, name)
            n = self.occ_seen.get(key, 0) + 1
            self.occ_seen[key] = n
            if (kind, name, n) in self.occ_faults:
                self.faults_fired.append((idx, kind, name))
                self.rec("fault", idx, kind, name)
                raise InjectedFault(f"injected@{idx}:{kind}:{name}")
        if self.always and (kind, name) in self.always:
            self.faults_fired.append((idx, kind, name))
            self.rec("fault", idx, kind, name)
            raise InjectedFault(f"injected@{idx}:{kind}:{name}")
        f = self.faults.get(idx)
        if f is not None and (f is True or f == kind or (isinstance(f, (list, tuple)) and kind in f)):
            self.faults_fired.append((idx, kind, name))
            self.rec("fault", idx, kind, name)
            raise InjectedFault(f"injected@{idx}:{kind}:{name}")
        return idx

    def close(self):
        self.closed = True


class RecPlugin:
    """Duck-typed plugin (registered through .use()) feeding the recorder."""

    def __init__(self, rec, iid_of=None, hostile=None):
        self.r = rec
        self.hostile = hostile  # None or set of hook names that raise via fault plan
        self.start_sends = None  # events the start hook sends to the (root) interpreter
        self._start_sent = False

    def _h(self, hook):
        if self.hostile is not None and hook in self.hostile:
            self.r.user_call("plugin", hook)

    def on_interpreter_start(self, interp):
        self.r.tick()
        self.r.rec("i-start", interp.id)
        self._h("on_interpreter_start")
        ss = self.start_sends
        if ss and getattr(interp, "parent", None) is None and not self._start_sent:
            # an observer that talks back: the interpreter already reads "running", so these sends are accepted - while
            # start() is still on its way to the initial configuration, on the thread that runs it
            self._start_sent = True
            for e in ss:
                batch = e.get("events")
                tags = [x["tag"] for x in batch] if batch else [e["tag"]]
                self.r.rec("hook-send", interp.id, tuple(tags), interp.status)
                try:
                    out = interp.send_events([dict(x) for x in batch]) if batch else interp.send(dict(e))
                    if hasattr(out, "close"):
                        out.close()  # a coroutine (async engine): not awaited from a plain hook
                    self.r.rec("hook-sent", interp.id, tuple(tags), "ok")
                except SimAbort:
                    raise
                except Exception as ex:
                    self.r.rec("hook-sent", interp.id, tuple(tags), type(ex).__name__)

    def on_interpreter_stop(self, interp):
        self.r.tick()
        self.r.rec("i-stop", interp.id)
        self._h("on_interpreter_stop")

    def on_event_received(self, interp, event):
        self.r.tick()
        self.r.rec("recv", interp.id, ev_type(event), ev_tag(event), ev_data(event), interp.status)
        self._h("on_event_received")

    def on_transition(self, interp, from_states, to_states, transition):
        self.r.tick()
        tid = None
        acts = getattr(transition, "actions", None) or []
        if acts:
            a0 = acts[0].type
            if a0.startswith("tr."):
                tid = a0[3:]
        try:
            live = cfg_ids(interp._active_state_nodes)
        except Exception:
            live = ("<unreadable>",)
        self.r.rec("trans", interp.id, tid, transition.source.id, transition.event,
                   cfg_ids(from_states), cfg_ids(to_states), live, transition.target_str)
        self._h("on_transition")

    def on_action_execute(self, interp, action):
        self.r.tick()
        self.r.rec("actx", interp.id, action.type)
        self._h("on_action_execute")

    def on_action_error(self, interp, action, error):
        self.r.tick()
        self.r.rec("acterr", interp.id, action.type, type(error).__name__)
        self._h("on_action_error")

    def on_guard_evaluated(self, interp, guard_name, event, result):
        self.r.tick()
        self.r.rec("guard", interp.id, guard_name, ev_type(event), bool(result))
        self._h("on_guard_evaluated")

    def on_service_start(self, interp, invocation):
        self.r.tick()
        self.r.rec("svc-start", interp.id, invocation.id, invocation.src)
        self._h("on_service_start")

    def on_service_done(self, interp, invocation, result):
        self.r.tick()
        self.r.rec("svc-done", interp.id, invocation.id)
        self._h("on_service_done")

    def on_service_error(self, interp, invocation, error):
        self.r.tick()
        self.r.rec("svc-error", interp.id, invocation.id, type(error).__name__)
        self._h("on_service_error")

    def on_done(self, interp, output):
        self.r.tick()
        self.r.rec("done-hook", interp.id, output)
        self._h("on_done")

    def on_error(self, interp, error):
        self.r.tick()
        self.r.rec("error-hook", interp.id, type(error).__name__)
        self._h("on_error")


class SecondPlugin:
    """A second, well-behaved plugin registered after the recording one: it must be told about every action error too."""

    def __init__(self, rec):
        self.r = rec

    def on_action_error(self, interp, action, error):
        self.r.rec("acterr2", interp.id, getattr(action, "type", None))

    def __getattr__(self, name):
        if name.startswith("on_"):
            return lambda *a, **k: None
        raise AttributeError(name)
