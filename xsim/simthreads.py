"""Baton-passing real threads under a seeded scheduler (sync engine).

Each simulated thread is a real `threading.Thread` parked on a private
semaphore; exactly one holds the baton at any time and the scheduler (driven by
one PRNG) decides who gets it next.  Blocking calls (`Event.wait`,
`time.sleep`, `join`) park the caller with an optional virtual wake-up time;
when nobody is runnable the virtual clock jumps to the earliest wake-up.

Pre-emption: `sys.monitoring` LINE events in repo code are counted; at the step
indices listed in `preempt` (PCT style) and with probability `noise` per line,
the running thread is forced to hand the baton to another runnable thread.
"""
from __future__ import annotations

import sys
import threading as _real_threading
import time as _real_time

from .vloop import SimAbort

RUNNABLE, BLOCKED, DONE, NEW = "R", "B", "D", "N"

_CURRENT_SIM = None  # the active Sim for this process (one run at a time)


def current_sim():
    return _CURRENT_SIM


class _TState:
    __slots__ = ("tid", "name", "sem", "state", "wake_at", "wait_ev", "wait_join", "abort",
                 "real", "real_ident", "target", "args", "kwargs", "quiescent_wait", "daemon", "woke_by_timeout", "kind")

    def __init__(self, tid, name):
        self.tid = tid
        self.name = name
        self.sem = _real_threading.Semaphore(0)
        self.state = NEW
        self.wake_at = None
        self.wait_ev = None
        self.wait_join = None
        self.abort = False
        self.real = None
        self.real_ident = None
        self.quiescent_wait = False
        self.woke_by_timeout = False
        self.kind = "thread"


class Sim:
    """One simulated run of a multi-threaded program."""

    def __init__(self, rng, preempt=(), noise=0.0, max_steps=2_000_000, repo_prefix=None, trace=None):
        self.rng = rng
        self.now = 0  # virtual microseconds
        self.threads = []
        self.cur = None
        self.step = 0
        self.preempt = set(preempt)
        self.preempt_lines = {}   # (file basename, line) -> occurrence to pre-empt at (0 = every occurrence)
        self.line_hits = {}
        self.noise = noise
        self.max_steps = max_steps
        self.max_threads = 160
        self.finishing = False
        self.repo_prefix = repo_prefix
        self.aborted = None
        self.switches = 0
        self.preempts_done = 0
        self.preempt_sites = []  # (step, file:line) where a forced switch happened
        self.ev_serial = 0
        self.trace = trace
        self.monitoring = False
        self._main = self._register("main")
        self._main.state = RUNNABLE
        self._main.kind = "director"
        self._main.real = _real_threading.current_thread()
        self._main.real_ident = _real_threading.get_ident()
        self.cur = self._main
        self.line_hist = None

    # -- registration -----------------------------------------------------
    def _register(self, name):
        if len(self.threads) >= self.max_threads:
            # every simulated thread is a real one: a scenario that keeps spawning (a state that re-invokes a child machine in a
            # loop) is cut here, reported as an aborted run and not judged
            self.aborted = self.aborted or "thread_budget"
            raise SimAbort("thread budget")
        ts = _TState(len(self.threads), name)
        self.threads.append(ts)
        return ts

    def me(self):
        return self.cur

    # -- core switch -------------------------------------------------------
    def _runnable(self):
        return [t for t in self.threads if t.state == RUNNABLE]

    def _pick_next(self, exclude=None):
        """Choose the next thread to run; may advance the clock."""
        while True:
            # a busy action may have moved the clock past sleepers' deadlines: they are runnable now
            for t in self.threads:
                if t.state == BLOCKED and t.wake_at is not None and t.wake_at <= self.now:
                    t.state = RUNNABLE
                    t.wake_at = None
                    t.woke_by_timeout = True
                    if t.wait_ev is not None:
                        t.wait_ev._waiters.discard(t)
                        t.wait_ev = None
                    t.wait_join = None
            cands = [t for t in self.threads if t.state == RUNNABLE and not t.quiescent_wait]
            if exclude is not None and len(cands) > 1:
                cands = [t for t in cands if t is not exclude]
            if cands:
                if len(cands) == 1:
                    return cands[0]
                return cands[self.rng.randrange(len(cands))]
            # nobody runnable at this instant: quiescent waiters first
            q = [t for t in self.threads if t.state == RUNNABLE and t.quiescent_wait]
            if q:
                t = q[0]
                t.quiescent_wait = False
                return t
            # advance the clock
            timed = [t for t in self.threads if t.state == BLOCKED and t.wake_at is not None]
            if not timed:
                return None
            nxt = min(t.wake_at for t in timed)
            if nxt > self.now:
                self.now = nxt
            for t in timed:
                if t.wake_at <= self.now:
                    t.state = RUNNABLE
                    t.wake_at = None
                    t.woke_by_timeout = True
                    if t.wait_ev is not None:
                        t.wait_ev._waiters.discard(t)
                        t.wait_ev = None
                    t.wait_join = None

    def _handoff(self, me, forced_other=False):
        """`me` gives up the baton (its state has been set by the caller)."""
        if self.finishing and _real_threading.get_ident() != self._main.real_ident:
            # (during the tear-down `self.cur` no longer identifies the caller: every released thread runs at once)
            # the run is over: a thread unwinding through the repo's `finally:` blocks (child.stop(), lock hand-overs)
            # must not park again - nobody would wake it
            raise SimAbort("sim ended")
        nxt = self._pick_next(exclude=me if forced_other else None)
        if nxt is None:
            # deadlock: everybody blocked forever.  Wake the director with abort info.
            self.aborted = self.aborted or "deadlock"
            nxt = self._main
            if nxt.state != DONE:
                nxt.state = RUNNABLE
        if nxt is me:
            return
        self.switches += 1
        self.cur = nxt
        nxt.sem.release()
        if me.state != DONE:
            me.sem.acquire()
            if me.abort:
                raise SimAbort("sim ended")

    # -- blocking primitives ----------------------------------------------
    def block(self, wake_at=None, ev=None, join=None):
        if self.finishing and _real_threading.get_ident() != self._main.real_ident:
            raise SimAbort("sim ended")
        me = self.cur
        me.state = BLOCKED
        me.wake_at = wake_at
        me.wait_ev = ev
        me.wait_join = join
        me.woke_by_timeout = False
        if ev is not None:
            ev._waiters.add(me)
        self._handoff(me)
        return not me.woke_by_timeout

    def yield_now(self, forced_other=True):
        if self.finishing and _real_threading.get_ident() != self._main.real_ident:
            raise SimAbort("sim ended")
        me = self.cur
        me.state = RUNNABLE
        self._handoff(me, forced_other=forced_other)

    def yield_after_busy(self):
        """Called by a busy (clock-advancing, non-blocking) user action: let overdue sleepers run."""
        if self.finishing and _real_threading.get_ident() != self._main.real_ident:
            raise SimAbort("sim ended")
        me = self.cur
        due = [t for t in self.threads if t is not me and (
            (t.state == BLOCKED and t.wake_at is not None and t.wake_at <= self.now)
            or (t.state == RUNNABLE and not t.quiescent_wait))]
        if not due:
            return
        # (a thread that was started but has not run yet reads its first deadline from the clock: left waiting across a
        # long busy period it would arm its timer late - an artefact no real scheduler produces)
        self.yield_now(forced_other=True)

    def sleep(self, us):
        if us <= 0:
            self.yield_now(forced_other=False)
            return
        self.block(wake_at=self.now + int(us))

    def wait_quiescent(self):
        """Director: park until no other thread is runnable at this instant."""
        me = self.cur
        me.state = RUNNABLE
        me.quiescent_wait = True
        self._handoff(me)
        me.quiescent_wait = False

    def advance(self, us, then_quiesce=True):
        self.block(wake_at=self.now + int(us))
        if then_quiesce:
            self.wait_quiescent()

    def wake(self, t):
        if t.state == BLOCKED:
            t.state = RUNNABLE
            t.wake_at = None
            if t.wait_ev is not None:
                t.wait_ev._waiters.discard(t)
                t.wait_ev = None
            t.wait_join = None

    # -- line pre-emption --------------------------------------------------
    def on_line(self, loc=None):
        if _real_threading.get_ident() != self.cur.real_ident:
            return
        self.step += 1
        if self.step > self.max_steps:
            self.aborted = self.aborted or "max_steps"
            raise SimAbort("line budget")
        hit = False
        if self.preempt_lines and loc is not None and loc in self.preempt_lines:
            # location-keyed pre-emption: a source line chosen uniformly over LINES (not over executed steps), so a line
            # that runs once per drain (a `finally:` block, a lock release) is as likely a switch point as a hot loop line
            n = self.line_hits.get(loc, 0) + 1
            self.line_hits[loc] = n
            want = self.preempt_lines[loc]
            hit = want == 0 or n == want
        if hit or self.step in self.preempt or (self.noise and self.rng.random() < self.noise):
            if len([t for t in self.threads if t.state == RUNNABLE and not t.quiescent_wait]) > 1:
                self.preempts_done += 1
                self.yield_now(forced_other=True)

    # -- thread lifecycle --------------------------------------------------
    def spawn(self, target, args=(), kwargs=None, name=None, kind="thread"):
        ts = self._register(name or f"T{len(self.threads)}")
        ts.kind = kind
        ts.state = RUNNABLE
        sim = self

        def _boot():
            ts.real_ident = _real_threading.get_ident()
            ts.sem.acquire()
            try:
                if ts.abort:
                    return
                try:
                    target(*args, **(kwargs or {}))
                except SimAbort:
                    pass
                except BaseException as e:  # harness/client error: record
                    ts_err = getattr(sim, "thread_errors", None)
                    if ts_err is None:
                        sim.thread_errors = ts_err = []
                    ts_err.append((ts.name, type(e).__name__, str(e)[:200]))
            finally:
                ts.state = DONE
                for o in sim.threads:
                    if o.state == BLOCKED and o.wait_join is ts:
                        sim.wake(o)
                if not ts.abort:
                    try:
                        sim._handoff(ts)
                    except SimAbort:
                        pass

        real = _real_threading.Thread(target=_boot, name=f"sim-{ts.tid}", daemon=True)
        ts.real = real
        if self.finishing:
            # spawned by a thread that is unwinding after the end of the run: it never gets to run
            ts.abort = True
            ts.sem.release()
        real.start()
        return ts

    def finish(self):
        """Director: end of run.  Release every parked thread with SimAbort."""
        self.finishing = True
        for t in self.threads:
            if t is self._main:
                continue
            if t.state != DONE:
                t.abort = True
                t.sem.release()
        for t in self.threads:
            if t is self._main or t.real is None:
                continue
            t.real.join(timeout=5)
        for t in list(self.threads):   # threads registered while the others were unwinding
            if t is not self._main and t.real is not None and t.real.is_alive():
                t.abort = True
                t.sem.release()
                t.real.join(timeout=5)
        alive = [t.name for t in self.threads if t is not self._main and t.real is not None and t.real.is_alive()]
        return alive

    def live_threads(self):
        return [t for t in self.threads if t is not self._main and t.state != DONE and t.kind == "thread"]


# -- replacements handed to the repo modules ------------------------------

class SimEvent:
    def __init__(self):
        sim = _CURRENT_SIM
        self._flag = False
        self._waiters = set()
        if sim is not None:
            sim.ev_serial += 1
            self._serial = sim.ev_serial
        else:
            self._serial = id(self)

    def __hash__(self):
        return self._serial * 2654435761 % (1 << 61)

    def is_set(self):
        return self._flag

    isSet = is_set

    def set(self):
        self._flag = True
        sim = _CURRENT_SIM
        if sim is not None:
            for t in sorted(self._waiters, key=lambda x: x.tid):
                sim.wake(t)
        self._waiters = set()

    def clear(self):
        self._flag = False

    def wait(self, timeout=None):
        if self._flag:
            return True
        sim = _CURRENT_SIM
        if sim is None:
            raise RuntimeError("SimEvent.wait outside a simulation")
        wake_at = None if timeout is None else sim.now + int(round(timeout * 1e6))
        sim.block(wake_at=wake_at, ev=self)
        return self._flag


class SimLock:
    """threading.Lock stand-in: a blocking acquire parks the caller in the simulator."""

    def __init__(self):
        self._owner = None
        self._ev = None

    def acquire(self, blocking=True, timeout=-1):
        sim = _CURRENT_SIM
        if self._owner is None:
            self._owner = sim.cur if sim is not None else True
            return True
        if not blocking:
            return False
        if sim is None:
            raise RuntimeError("SimLock contended outside a simulation")
        while self._owner is not None:
            if self._ev is None:
                self._ev = SimEvent()
            ev = self._ev
            wake_at = None if timeout is None or timeout < 0 else sim.now + int(round(timeout * 1e6))
            sim.block(wake_at=wake_at, ev=ev)
            if self._owner is not None and wake_at is not None and sim.now >= wake_at:
                return False
        self._owner = sim.cur
        return True

    def release(self):
        self._owner = None
        ev, self._ev = self._ev, None
        if ev is not None:
            ev.set()

    def locked(self):
        return self._owner is not None

    def __enter__(self):
        self.acquire()
        return self

    def __exit__(self, *a):
        self.release()
        return False


class SimThread:
    def __init__(self, group=None, target=None, name=None, args=(), kwargs=None, *, daemon=None):
        self._target = target
        self._args = args
        self._kwargs = kwargs or {}
        self.name = name or "Thread"
        self.daemon = bool(daemon)
        self._ts = None

    def start(self):
        sim = _CURRENT_SIM
        if sim is None:
            raise RuntimeError("SimThread.start outside a simulation")
        self._ts = sim.spawn(self._target, self._args, self._kwargs, name=self.name)

    def is_alive(self):
        return self._ts is not None and self._ts.state != DONE

    def join(self, timeout=None):
        sim = _CURRENT_SIM
        if self._ts is None or self._ts.state == DONE:
            return
        wake_at = None if timeout is None else sim.now + int(round(timeout * 1e6))
        sim.block(wake_at=wake_at, join=self._ts)

    @property
    def ident(self):
        return self._ts.tid if self._ts else None


class SimThreadingModule:
    """Stands in for the `threading` module inside repo modules."""
    Thread = SimThread
    Event = SimEvent
    Lock = SimLock

    def __getattr__(self, name):
        return getattr(_real_threading, name)

    @staticmethod
    def current_thread():
        return _real_threading.current_thread()


class SimTimeModule:
    """Stands in for the `time` module inside repo modules."""

    @staticmethod
    def sleep(sec):
        sim = _CURRENT_SIM
        if sim is None:
            raise RuntimeError("time.sleep in repo code outside a simulation")
        sim.sleep(int(round(sec * 1e6)))

    @staticmethod
    def monotonic():
        sim = _CURRENT_SIM
        if sim is None:
            return 0.0
        return sim.now / 1e6

    time = monotonic
    perf_counter = monotonic

    def __getattr__(self, name):
        return getattr(_real_time, name)


# -- sys.monitoring glue ----------------------------------------------------
_TOOL = 3
_MON_ON = False
_LINE_CB = None


def enable_line_monitor(prefix, callback):
    """Enable LINE events; `callback()` is invoked for every line in files under prefix."""
    global _MON_ON, _LINE_CB
    mon = sys.monitoring
    if not _MON_ON:
        try:
            mon.use_tool_id(_TOOL, "xsim")
        except ValueError:
            pass
        DIS = mon.DISABLE

        def _cb(code, line):
            if not code.co_filename.startswith(prefix):
                return DIS
            cb = _LINE_CB
            if cb is not None:
                cb(code, line)
            return None

        mon.register_callback(_TOOL, mon.events.LINE, _cb)
        _MON_ON = True
    _LINE_CB = callback
    mon.set_events(_TOOL, mon.events.LINE)


def disable_line_monitor():
    global _LINE_CB
    _LINE_CB = None
    if _MON_ON:
        sys.monitoring.set_events(_TOOL, 0)


def set_current(sim):
    global _CURRENT_SIM
    _CURRENT_SIM = sim
