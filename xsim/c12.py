"""C12 - snapshots are faithful, isolated resume points (every cut point of each sampled scenario)."""
from __future__ import annotations

import copy
import json
import random

from .execs import execute
from .model import Model
from .tracewalk import K, SEQ, Violation

CMP_KEYS = ("cfg", "ctx", "status", "output", "error", "actors", "system", "history")


def _obs_by_op(res, root):
    out = {}
    for r in res.trace:
        if r[K] == "obs" and r[5] == root and str(r[4]).startswith("after-op"):
            out[int(str(r[4])[8:])] = r[6]
    return out


def _strip_actor_volatile(a):
    return a


def _machine_invoke_started(sc, res):
    svc_ = (sc.get("logic") or {}).get("services") or {}
    root = sc["machine"]["id"]
    ids = []

    def walk(c):
        iv = c.get("invoke")
        for one in (iv if isinstance(iv, list) else [iv] if iv else []):
            if isinstance(one, dict) and (svc_.get(one.get("src")) or {}).get("k") == "machine":
                ids.append((one.get("id"), one.get("src")))
        for ch in (c.get("states") or {}).values():
            walk(ch)
    walk(sc["machine"])
    if not ids:
        return False
    for r in res.trace:
        if r[K] == "i-start" and r[4] != root:
            for inv_id, src in ids:
                if r[4] == f"{root}:{inv_id}":
                    return True
    return False


def run_c12(sc):
    if sc.get("c12_mode") == "corrupt":
        return run_c12_corrupt(sc)
    root = sc["machine"]["id"]
    ops = sc["ops"]
    base = execute(sc)
    results = [base]
    vios = []
    if base.meta.get("harness_error") or base.meta.get("abort"):
        return results, []
    start_ret = [r for r in base.trace if r[K] == "op-ret" and r[5] == "start"]
    if not start_ret or (isinstance(start_ret[0][6], tuple) and start_ret[0][6][0] == "exc"):
        return results, []
    base_obs = _obs_by_op(base, root)
    sends = [i for i, op in enumerate(ops) if op.get("op") == "send"]
    cuts = [0] + sends  # cut after start and after every event
    cycles = sc.get("restore_cycles", 1)
    tested = 0
    for k in cuts:
        # ops[0..k], snapshot, crash+restore (cycles times), re-snapshot, start, rest
        pre = copy.deepcopy(ops[:k + 1])
        mid = []
        for c in range(cycles):
            mid += [{"op": "snapshot", "label": f"cut{c}"}, {"op": "restore", "from": f"cut{c}"}, {"op": "snapshot", "label": f"re{c}"}]
        mid += [{"op": "start"}]
        shift = len(mid)
        s2 = copy.deepcopy(sc)
        s2["ops"] = pre + mid + copy.deepcopy(ops[k + 1:])
        res = execute(s2)
        results.append(res)
        if res.meta.get("harness_error"):
            return results, vios
        if res.meta.get("abort"):
            continue
        tested += 1
        sig = {"engine": sc["engine"], "uses_actors": bool(sc.get("uses_actors")), "uses_history": "'history'" in repr(sc["machine"]),
               # an invoked child MACHINE was actually started in the uninterrupted run (declaring one is not enough)
               "invokes_machine": _machine_invoke_started(sc, base)}
        # snapshot text is valid JSON; restore succeeded; re-snapshot equals
        snaps = {}
        bad = False
        for r in res.trace:
            if r[K] == "op-ret" and r[5] == "snapshot" and isinstance(r[6], tuple) and r[6][0] == "snapshot":
                idx = r[4]
                label = s2["ops"][idx].get("label")
                try:
                    snaps[label] = json.loads(r[6][1])
                except Exception as e:
                    vios.append(Violation("C12", "snapshot-not-json", sig, f"get_snapshot() at cut {k} is not valid JSON: {e}"))
                    bad = True
            elif r[K] == "op-ret" and r[5] == "restore" and r[6] != "ok":
                vios.append(Violation("C12", "restore-failed", dict(sig, exc=r[6][1] if isinstance(r[6], tuple) else str(r[6])),
                                      f"restoring the snapshot taken after op {k} failed: {r[6]}"))
                bad = True
            elif r[K] == "snap-mutated":
                vios.append(Violation("C12", "snapshot-mutated-by-later-execution", sig,
                                      f"the persisted snapshot dict taken at {r[4]} (cut {k}) changed while the interpreter kept running"))
                bad = True
        if bad:
            break
        for c in range(cycles):
            a, b = snaps.get(f"cut{c}"), snaps.get(f"re{c}")
            if a is not None and b is not None and a != b:
                diff = [key for key in sorted(set(a) | set(b)) if a.get(key) != b.get(key)]
                vios.append(Violation("C12", "resnapshot-differs", dict(sig, fields=",".join(diff)),
                                      f"cut after op {k}: snapshot(restore(s)) != s in {diff}: {[(a.get(d), b.get(d)) for d in diff][:2]}"))
                bad = True
                break
        if bad:
            break
        obs2 = _obs_by_op(res, root)
        # the observation right after restore+start equals the one at the cut
        pairs = [(k, k + shift)] + [(i, i + shift) for i in range(k + 1, len(ops)) if ops[i].get("op") == "send"]
        for i_base, i_twin in pairs:
            a, b = base_obs.get(i_base), obs2.get(i_twin)
            if a is None or b is None:
                continue
            diff = [key for key in CMP_KEYS if a.get(key) != b.get(key)]
            if diff:
                vios.append(Violation("C12", "restored-run-diverges", dict(sig, field=diff[0], at_cut=i_base == k),
                                      f"cut after op {k}: after op {i_base} ({ops[i_base]}) original {diff[0]}={a.get(diff[0])!r} vs restored {b.get(diff[0])!r}"))
                bad = True
                break
        if bad:
            break
    base.meta["c12_cuts"] = tested
    return results, vios


# ---------------------------------------------------------------------------
CORRUPTIONS = ("truncate", "not-object", "missing-context", "missing-status", "missing-config", "context-type", "status-type",
               "status-value", "config-type", "config-item-type", "history-type", "history-item-type", "actors-type", "actor-record-type",
               "system-type", "unknown-state", "foreign-state", "byteflip-structure")


def corrupt(text, kind, rng, mid):
    d = json.loads(text)
    if kind == "truncate":
        return text[: rng.randint(1, max(1, len(text) - 2))], True
    if kind == "not-object":
        return json.dumps(rng.choice(([1, 2], "x", 5, None, True))), True
    if kind == "missing-context":
        d.pop("context", None)
    elif kind == "missing-status":
        d.pop("status", None)
    elif kind == "missing-config":
        d.pop("configuration", None)
        d.pop("state_ids", None)
    elif kind == "context-type":
        d["context"] = rng.choice(([1], "ctx", 3, None))
    elif kind == "status-type":
        d["status"] = rng.choice((5, None, ["running"], {"s": 1}))
    elif kind == "status-value":
        d["status"] = rng.choice(("RUNNING", "paused", "", "active"))
    elif kind == "config-type":
        v = rng.choice(("m.S1", 7, {"a": 1}))
        d["configuration"] = v
        d["state_ids"] = v
    elif kind == "config-item-type":
        d["configuration"] = list(d.get("configuration") or []) + [rng.choice((1, None, {"x": 1}, ["m"]))]
    elif kind == "history-type":
        d["history"] = rng.choice(([1], "h", 4))
    elif kind == "history-item-type":
        d["history"] = {mid: rng.choice((5, "m.S1", [1, None]))}
    elif kind == "actors-type":
        d["actors"] = rng.choice(([1], "a", 9))
    elif kind == "actor-record-type":
        d["actors"] = {"m:x": rng.choice((1, "rec", [1], {"src": 5}, {"src": None, "snapshot": 3}))}
    elif kind == "system-type":
        d["system"] = rng.choice(([1], "s", 2))
    elif kind == "unknown-state":
        d["configuration"] = list(d.get("configuration") or []) + [mid + ".no_such_state"]
    elif kind == "foreign-state":
        d["configuration"] = ["other.machine.A"]
        d["state_ids"] = ["other.machine.A"]
    elif kind == "byteflip-structure":
        t = text
        pos = [i for i, ch in enumerate(t) if ch in '{}[]":,']
        i = rng.choice(pos)
        return t[:i] + rng.choice("}{]x") + t[i + 1:], None  # may or may not still be JSON
    return json.dumps(d), True


def run_c12_corrupt(sc):
    """Take a snapshot at the end of a short run, corrupt it in every listed way, restore each."""
    root = sc["machine"]["id"]
    base_sc = copy.deepcopy(sc)
    base_sc["ops"] = base_sc["ops"] + [{"op": "snapshot", "label": "s"}]
    base = execute(base_sc)
    results = [base]
    vios = []
    if base.meta.get("harness_error") or base.meta.get("abort"):
        return results, []
    text = None
    for r in base.trace:
        if r[K] == "op-ret" and r[5] == "snapshot" and isinstance(r[6], tuple) and r[6][0] == "snapshot":
            text = r[6][1]
    if text is None:
        return results, []
    rng = random.Random(sc.get("seed", 0) * 13 + 5)
    counts = {}
    for kind in CORRUPTIONS:
        bad_text, surely = corrupt(text, kind, rng, root)
        if surely is None:
            try:
                json.loads(bad_text)
                continue  # still valid JSON after the flip: not necessarily corrupt, skipped
            except Exception:
                pass
        s2 = copy.deepcopy(sc)
        s2["ops"] = [{"op": "restore", "text": bad_text}]
        res = execute(s2)
        results.append(res)
        if res.meta.get("harness_error"):
            return results, vios
        counts[kind] = counts.get(kind, 0) + 1
        ret = [r for r in res.trace if r[K] == "op-ret" and r[5] == "restore"]
        if not ret:
            continue
        out = ret[0][6]
        sig = {"engine": sc["engine"], "corruption": kind}
        if out == "ok":
            vios.append(Violation("C12", "corrupt-snapshot-accepted", sig, f"{kind}: from_snapshot accepted {bad_text[:120]!r}"))
        elif isinstance(out, tuple) and out[0] == "exc" and not out[2]:
            vios.append(Violation("C12", "corrupt-snapshot-raw-exception", dict(sig, exc=out[1]),
                                  f"{kind}: from_snapshot raised {out[1]}({out[3]!r}) instead of an XStateMachineError"))
    base.meta["c12_corruptions"] = counts
    return results, vios


def stats_c12(sc, res):
    s = {}
    if "c12_cuts" in res.meta:
        s["cut_points_restored"] = res.meta["c12_cuts"]
    for k, v in (res.meta.get("c12_corruptions") or {}).items():
        s["corrupt_" + k] = v
    return s
