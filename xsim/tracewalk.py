"""Indexing helpers over a recorded trace (shared by oracles)."""
from __future__ import annotations

from .model import Model

# record layout: (seq, t_us, worker, kind, *fields)
SEQ, T, W, K = 0, 1, 2, 3


class Violation:
    __slots__ = ("prop", "rule", "sig", "msg", "detail", "local")

    def __init__(self, prop, rule, sig=None, msg="", detail=None, local=False):
        self.prop = prop
        self.rule = rule
        self.sig = dict(sig or {})
        self.msg = msg
        self.detail = detail
        self.local = local

    def key(self):
        return (self.prop, self.rule, tuple(sorted((k, repr(v)) for k, v in self.sig.items())))

    def to_json(self):
        return {"property": self.prop, "rule": self.rule, "signature": self.sig, "message": self.msg,
                "detail": self.detail}

    def __repr__(self):
        return f"<Violation {self.prop} {self.rule} {self.sig} {self.msg}>"


class Activation:
    __slots__ = ("state", "idx", "t_in", "seq_in", "t_out", "seq_out", "ev_in", "ev_out")

    def __repr__(self):
        return f"<Act {self.state}#{self.idx} in@{self.t_in}/{self.seq_in} out@{self.t_out}/{self.seq_out}>"


class Walk:
    """Index of one run's trace for one interpreter id (default: the root)."""

    def __init__(self, sc, res, iid=None, model=None):
        self.sc = sc
        self.res = res
        self.trace = res.trace
        self.model = model or Model(sc["machine"])
        self.iid = iid or sc["machine"]["id"]
        self.acts = []  # act records of this interpreter
        self.trans = []
        self.recv = []
        self.obs = []
        self.ops_call = {}
        self.ops_ret = {}
        self.logs = []
        self.activations = {}  # state id -> [Activation]
        self.entry_seq = []  # (seq, state id) entry markers
        self.exit_seq = []
        self.stop_ret_seq = None
        self.stop_call_seq = None
        self.start_ret_seq = None
        self.svc = []
        self.subs = []
        for r in self.trace:
            k = r[K]
            if k == "act":
                if r[4] != self.iid:
                    continue
                self.acts.append(r)
                name = r[5]
                if name.startswith("en."):
                    sid = name[3:]
                    lst = self.activations.setdefault(sid, [])
                    a = Activation()
                    a.state, a.idx, a.t_in, a.seq_in, a.t_out, a.seq_out = sid, len(lst), r[T], r[SEQ], None, None
                    a.ev_in = (r[6], r[7])
                    a.ev_out = None
                    lst.append(a)
                    self.entry_seq.append((r[SEQ], sid))
                elif name.startswith("ex."):
                    sid = name[3:]
                    lst = self.activations.setdefault(sid, [])
                    if lst and lst[-1].t_out is None:
                        lst[-1].t_out, lst[-1].seq_out = r[T], r[SEQ]
                        lst[-1].ev_out = (r[6], r[7])
                    self.exit_seq.append((r[SEQ], sid))
            elif k == "trans":
                if r[4] == self.iid:
                    self.trans.append(r)
            elif k == "recv":
                if r[4] == self.iid:
                    self.recv.append(r)
            elif k == "obs":
                if r[5] == self.iid:
                    self.obs.append(r)
            elif k == "op-call":
                self.ops_call[r[4]] = r
                if r[5] == "stop" and self.stop_call_seq is None:
                    self.stop_call_seq = r[SEQ]
            elif k == "op-ret":
                self.ops_ret[r[4]] = r
                if r[5] == "stop" and self.stop_ret_seq is None:
                    self.stop_ret_seq = r[SEQ]
                if r[5] == "start" and self.start_ret_seq is None:
                    self.start_ret_seq = r[SEQ]
            elif k == "log":
                self.logs.append(r)
            elif k == "sub":
                if r[4] == self.iid:
                    self.subs.append(r)
            elif k in ("svc-call", "svc-end", "svc-start", "svc-done", "svc-error"):
                self.svc.append(r)

    def activation_at(self, sid, seq):
        """The activation of sid that is current at trace position seq (entered before, not yet exited)."""
        for a in reversed(self.activations.get(sid, [])):
            if a.seq_in < seq and (a.seq_out is None or a.seq_out > seq):
                return a
        return None

    def last_activation_before(self, sid, seq):
        for a in reversed(self.activations.get(sid, [])):
            if a.seq_in < seq:
                return a
        return None

    def final_obs(self, label="final"):
        for r in reversed(self.obs):
            if r[4] == label:
                return r[6]
        return None

    def aborted(self):
        return bool(self.res.meta.get("abort"))
