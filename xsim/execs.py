"""Executors: run a scenario on the async engine (VLoop), the sync engine
(SimThreading) or the pure API and return the recorded trace.

execute(scenario) is a pure function of the scenario and the code under test.
"""
from __future__ import annotations

import os

import asyncio
import copy
import json
import random

from . import seams
from .logic import Builder
from .recorder import Env, Recorder, RecPlugin, SecondPlugin, cfg_ids
from .simthreads import Sim, disable_line_monitor, enable_line_monitor, set_current
from .vloop import SimAbort, VLoop

from xstate_statemachine import Interpreter, SyncInterpreter  # noqa: E402
from xstate_statemachine.base_interpreter import BaseInterpreter  # noqa: E402
from xstate_statemachine.exceptions import XStateMachineError  # noqa: E402
from xstate_statemachine import helpers as _helpers  # noqa: E402

# ---------------------------------------------------------------------------
# auto-attach the recording plugin to every interpreter created during a run
# (children are created inside the repo, so .use() cannot be called by hand)
_ACTIVE = {"rec": None, "plugin": None, "subs": None}
_orig_init = BaseInterpreter.__init__


def _patched_init(self, *a, **k):
    _orig_init(self, *a, **k)
    pl = _ACTIVE["plugin"]
    if pl is not None or _ACTIVE.get("track"):
        _ACTIVE.setdefault("interps", []).append(self)
        if pl is not None:
            if _ACTIVE.get("via_property"):
                # the other documented way of registering: `interpreter.plugins = [...]`
                self.plugins = list(self.plugins) + [pl]
            else:
                self.use(pl)
        pl2 = _ACTIVE.get("plugin2")
        if pl2 is not None:
            self.use(pl2)
        cb = _ACTIVE["subs"]
        if cb is not None:
            cb(self)


BaseInterpreter.__init__ = _patched_init


def _jsonable(x):
    try:
        json.dumps(x)
        return x
    except Exception:
        return repr(x)


class Result:
    __slots__ = ("trace", "meta", "scenario")

    def __init__(self, trace, meta, scenario):
        self.trace = trace
        self.meta = meta
        self.scenario = scenario


def _root_of(i):
    seen = 0
    while getattr(i, "parent", None) is not None and seen < 50:
        i = i.parent
        seen += 1
    return i


def observe(rec, interp, label, census=None):
    """Public-API observation of an interpreter."""
    try:
        snap = interp.get_persisted_snapshot()
    except SimAbort:
        raise
    except Exception as e:  # observation itself failing is recorded
        rec.rec("obs-fail", label, type(e).__name__, str(e)[:200])
        return None
    try:
        system = {k: v.id for k, v in interp.system.get_all().items()}
    except Exception as e:
        system = {"<error>": type(e).__name__}
    o = {
        "status": snap.get("status"),
        "cfg": tuple(snap.get("configuration") or ()) if isinstance(snap.get("configuration") or (), (list, tuple)) else (repr(snap.get("configuration")),),
        "leaves": tuple(snap.get("state_ids") or ()) if isinstance(snap.get("state_ids") or (), (list, tuple)) else (),
        "ctx": _jsonable(snap.get("context")),
        "history": {k: tuple(v) for k, v in (snap.get("history") or {}).items()} if isinstance(snap.get("history") or {}, dict) else repr(snap.get("history")),
        "output": _jsonable(snap.get("output")),
        "error": snap.get("error"),
        "actors": _actor_tree(snap.get("actors") or {}),
        "system": dict(snap.get("system") or {}) if isinstance(snap.get("system") or {}, dict) else repr(snap.get("system")),
        "system_live": system,
        "census": census() if census else None,
        # other interpreters created in this run that descend from the observed one (restored generations that were
        # abandoned are somebody else's descendants)
        "interps": tuple((i.id, i.status, getattr(i.parent, "id", None)) for i in (_ACTIVE.get("interps") or [])
                         if i is not interp and _root_of(i) is interp),
    }
    rec.rec("obs", label, interp.id, o)
    return o


def _actor_tree(actors):
    out = {}
    if not isinstance(actors, dict):
        return {"<malformed>": repr(actors)[:60]}
    for aid, r in actors.items():
        if not isinstance(r, dict) or not isinstance(r.get("snapshot") or {}, dict):
            out[aid] = {"<malformed>": repr(r)[:60]}
            continue
        s = r.get("snapshot") or {}
        out[aid] = {"src": r.get("src"), "status": s.get("status"), "cfg": tuple(s.get("configuration") or ()),
                    "ctx": _jsonable(s.get("context")), "actors": _actor_tree(s.get("actors") or {})}
    return out


def _mk_event(op):
    ev = op.get("event")
    if isinstance(ev, dict):
        return dict(ev)
    d = {"type": ev}
    if "tag" in op:
        d["tag"] = op["tag"]
    if "p" in op:
        d["p"] = op["p"]
    return d


_GARBAGE = []


def _begin_run(sc, env, budget):
    del _GARBAGE[:]
    n = int(sc.get("heap_garbage") or 0)
    if n:
        # perturb the heap layout so address-based hashes differ between executions
        _GARBAGE.extend(bytearray((i * 37) % 211 + 1) for i in range(n))
        del _GARBAGE[::2]
    k = int(sc.get("fn_garbage") or 0)
    if k:
        # the same for function objects (listeners, subscribers and callbacks are hashed by address when put in a set):
        # allocate a batch, free an irregular subset so that the allocator's free list hands out addresses in another order
        fns = [(lambda ev, j=j, r=rec_cell: (j, r)) for rec_cell in (object(),) for j in range(k * 8)]
        keep = [f for i, f in enumerate(fns) if (i * (k + 2)) % 5 >= 2]
        del fns
        _GARBAGE.append(keep)
    seams.set_hash_mode(sc.get("hash_mode", "salted"))
    seams.set_salt(sc.get("salt", 0))
    seams.UUID.reset(sc.get("uuid_mode"), sc.get("salt", 0))
    faults = {}
    for f in sc.get("faults") or []:
        if "at_call" in f:
            faults[int(f["at_call"])] = f.get("kind", True) or True
    rec = Recorder(env, budget=budget, faults=faults)
    rec.always = {tuple(f["always"]) for f in (sc.get("faults") or []) if "always" in f}
    rec.occ_faults = {tuple(f["at_occurrence"]) for f in (sc.get("faults") or []) if "at_occurrence" in f}
    rec.keep_call_kinds = bool(sc.get("keep_call_kinds"))

    def log_sink(logger_name, level, exc, msg):
        rec.rec("log", logger_name, level, exc, msg[:160])
    seams.LOGCAP.sink = log_sink
    hostile = sc.get("hostile_plugin")
    plugin = RecPlugin(rec, hostile=set(hostile) if hostile else None)
    plugin.start_sends = sc.get("start_hook_sends")
    _ACTIVE["rec"] = rec
    # "no_plugin": the interpreters run without any plugin (observers must not be needed for correct behaviour);
    # "second_plugin": a well-behaved plugin is registered after the recording one
    _ACTIVE["plugin"] = None if sc.get("no_plugin") else plugin
    _ACTIVE["plugin2"] = SecondPlugin(rec) if sc.get("second_plugin") and not sc.get("no_plugin") else None
    _ACTIVE["track"] = True
    _ACTIVE["via_property"] = bool(sc.get("plugin_via_property"))
    _ACTIVE["interps"] = []
    return rec, plugin


def _end_run(rec):
    rec.close()
    _ACTIVE["rec"] = None
    _ACTIVE["plugin"] = None
    _ACTIVE["plugin2"] = None
    _ACTIVE["track"] = False
    _ACTIVE["subs"] = None
    _ACTIVE["interps"] = []
    seams.LOGCAP.sink = None


def _attach_listeners(rec, sc):
    """subscribe() + on('*') on every interpreter created in this run."""
    hostile_sub = bool(sc.get("hostile_subscriber"))
    hostile_lis = bool(sc.get("hostile_listener"))

    def attach(interp):
        def sub(i):
            rec.tick()
            try:
                cfg = tuple(i.get_persisted_snapshot().get("configuration") or ())
            except Exception as e:
                cfg = ("<err:%s>" % type(e).__name__,)
            rec.rec("sub", i.id, cfg, i.status)
            if hostile_sub:
                rec.user_call("subscriber", "sub")
        interp.subscribe(sub)

        def sub2(i):
            # a second, well-behaved observer registered AFTER the one that may raise: it must see every change
            rec.rec("sub2", i.id, i.status)
        interp.subscribe(sub2)

        def lis(ev):
            rec.tick()
            rec.rec("emit", interp.id, getattr(ev, "type", None))
            if hostile_lis:
                rec.user_call("listener", "lis")
        interp.on("*", lis)

        def lis2(ev):
            rec.rec("emit2", interp.id, getattr(ev, "type", None))
        interp.on("*", lis2)

        def lis3(ev):
            # a type-specific listener: listeners run in registration order, the specific ones before the wildcard ones
            rec.rec("emit3", interp.id, getattr(ev, "type", None))
        interp.on("NOTE", lis3)
        for j in range(int(sc.get("extra_listeners") or 0)):
            def lisx(ev, j=j):
                rec.rec("emitx", interp.id, j)
            interp.on("*" if j % 2 else "NOTE", lisx)
    _ACTIVE["subs"] = attach


# ---------------------------------------------------------------------------
# ASYNC
# ---------------------------------------------------------------------------

class _AsyncEnv(Env):
    def __init__(self, loop):
        self.loop = loop

    def now(self):
        return self.loop._now_us

    def worker(self):
        try:
            t = asyncio.current_task(self.loop)
        except RuntimeError:
            t = None
        return t.get_name() if t is not None else "loop"

    def busy(self, us):
        self.loop.busy_advance(us)


def _task_census(loop):
    out = []
    for t in loop.live_tasks():
        nm = t.get_name()
        if nm.startswith("h:"):
            continue
        co = t.get_coro()
        out.append(getattr(co, "__qualname__", str(co)))
    return tuple(sorted(out))


def exec_async(sc):
    sched = sc.get("sched") or {}
    tie_seed = sched.get("tie_seed")
    late_cfg = sched.get("late")
    late = None
    if late_cfg:
        p, mx = late_cfg.get("p", 0.0), int(late_cfg.get("max", 0))

        def late(rng):  # noqa: F811
            return rng.randrange(1, mx + 1) if (mx > 0 and rng.random() < p) else 0
    loop = VLoop(tie_rng=random.Random(tie_seed) if tie_seed is not None else None, late=late,
                 max_handles=int(sc.get("max_handles", 300_000)))
    env = _AsyncEnv(loop)
    rec, plugin = _begin_run(sc, env, int(sc.get("budget", 40_000)))
    rec.abort_cb = lambda why: setattr(loop, "aborted", loop.aborted or why)
    _attach_listeners(rec, sc)
    meta = {"engine": "async", "abort": None, "harness_error": None}
    line_stats = None
    if sc.get("line_monitor"):
        line_stats = {"cur": 0, "max": 0, "total": 0}
        cap = int(sc.get("line_cap", 3_000_000))

        def on_line(code, line):
            line_stats["cur"] += 1
            line_stats["total"] += 1
            if line_stats["total"] > cap:
                loop.aborted = loop.aborted or "line_budget"
                raise SimAbort("line budget")

        def on_iter(lp):
            if line_stats["cur"] > line_stats["max"]:
                line_stats["max"] = line_stats["cur"]
            line_stats["cur"] = 0
        loop.on_iteration = on_iter
        enable_line_monitor(seams.PKG_DIR, on_line)
    st = {"interp": None, "builder": None}
    try:
        builder = Builder(sc, rec, env, "async")
        st["builder"] = builder
        census = lambda: _task_census(loop)  # noqa: E731
        with loop.running():
            machine = builder.machine_for(None)
            st["interp"] = Interpreter(machine)
        clients = {}
        ops = list(enumerate(sc.get("ops") or []))
        snapshots = {}
        snap_live = []

        async def run_op(i, op, prev):
            if prev is not None and not prev.done():
                try:
                    await prev
                except BaseException:
                    pass
            interp = st["interp"]
            kind = op["op"]
            rec.rec("op-call", i, kind, op.get("event"), op.get("tag"), interp.status)
            out = "ok"
            try:
                if kind == "start":
                    await interp.start()
                elif kind == "send":
                    await interp.send(_mk_event(op))
                elif kind == "send_events":
                    await interp.send_events([dict(e) for e in op["events"]])
                elif kind == "stop":
                    await interp.stop()
                elif kind == "can":
                    out = ("can", bool(interp.can(_mk_event(op))))
                elif kind == "snapshot":
                    s = interp.get_snapshot()
                    snapshots[op.get("label", i)] = s
                    live = interp.get_persisted_snapshot()
                    snap_live.append((op.get("label", i), live, copy.deepcopy(live)))
                    out = ("snapshot", s)
                elif kind == "noop":
                    pass
                else:
                    raise ValueError(f"unknown op {kind}")
            except SimAbort:
                raise
            except asyncio.CancelledError:
                out = "cancelled"
                raise
            except Exception as e:
                out = ("exc", type(e).__name__, isinstance(e, XStateMachineError), str(e)[:200])
            finally:
                rec.rec("op-ret", i, kind, out, st["interp"].status)

        def crash_and_restore(i, op):
            """Abandon the interpreter (tasks die silently), rebuild machine, restore from snapshot text."""
            label = op.get("from", "last")
            text = op.get("text") if "text" in op else snapshots.get(label)
            rec.closed = True
            with loop.running():
                for t in loop.live_tasks():
                    if not t.get_name().startswith("h:"):
                        t.cancel()
            loop.settle()
            rec.closed = False
            rec.rec("op-call", i, "restore", None, None, None)
            try:
                with loop.running():
                    m2 = builder.fresh_machine(None)
                    st["interp"] = Interpreter.from_snapshot(text, m2)
                rec.rec("op-ret", i, "restore", "ok", st["interp"].status)
            except SimAbort:
                raise
            except Exception as e:
                rec.rec("op-ret", i, "restore", ("exc", type(e).__name__, isinstance(e, XStateMachineError), str(e)[:200]), None)

        for i, op in ops:
            if loop.aborted:
                break
            kind = op["op"]
            if "t" in op:
                loop.run_until(int(op["t"]), inclusive=(op.get("tie", "after") == "after"))
            elif "dt" in op and kind != "advance":
                loop.run_until(loop._now_us + int(op["dt"]), inclusive=(op.get("tie", "after") == "after"))
            if loop.aborted:
                break
            if kind == "advance":
                loop.advance(int(op["dt"]))
                continue
            if kind == "settle":
                loop.settle()
                rec.rec("quiescent", i)
                continue
            if kind == "obs":
                observe(rec, st["interp"], op.get("label", f"op{i}"), census)
                continue
            if kind == "restore":
                crash_and_restore(i, op)
                continue
            c = op.get("client", 0)
            with loop.running():
                t = loop.create_task(run_op(i, op, clients.get(c)), name=f"h:c{c}:op{i}")
            clients[c] = t
            if op.get("wait", True):
                loop.settle()
                if op.get("obs", True) and not loop.aborted:
                    observe(rec, st["interp"], f"after-op{i}", census)
        if not loop.aborted:
            end = sc.get("horizon")
            if end is not None:
                loop.run_until(max(int(end), loop._now_us))
            else:
                loop.settle()
            if not loop.aborted:
                observe(rec, st["interp"], "final", census)
                for label, live, frozen in snap_live:
                    if live != frozen:
                        rec.rec("snap-mutated", label)
        post = sc.get("post_stop")
        if post and not loop.aborted:
            with loop.running():
                loop.create_task(run_op(10**6, {"op": "stop"}, None), name="h:final-stop")
            loop.settle()
            observe(rec, st["interp"], "after-stop", census)
            mark = rec.seq
            loop.advance(int(post))
            rec.rec("post-stop-window", mark)
            observe(rec, st["interp"], "after-stop-late", census)
        meta["abort"] = loop.aborted
    except SimAbort:
        meta["abort"] = loop.aborted or "simabort"
    except Exception as e:  # harness error
        import traceback
        meta["harness_error"] = f"{type(e).__name__}: {e}\n{traceback.format_exc()[-1500:]}"
    finally:
        if line_stats is not None:
            disable_line_monitor()
            meta["lines_total"] = line_stats["total"]
            meta["lines_max_iter"] = max(line_stats["max"], line_stats["cur"])
        meta["vtime_us"] = loop._now_us
        meta["handles"] = loop.handles_run
        meta["timers_fired"] = loop.timers_fired
        meta["ties"] = loop.same_instant_ties
        meta["calls"] = rec.calls
        meta["call_kinds"] = rec.call_kinds
        meta["faults_fired"] = list(rec.faults_fired)
        meta["loop_exc"] = list(loop.exc_contexts)
        _end_run(rec)
        loop.shutdown()
    return Result(rec.trace, meta, sc)


# ---------------------------------------------------------------------------
# SYNC (under SimThreading)
# ---------------------------------------------------------------------------

class _SyncEnv(Env):
    def __init__(self, sim):
        self.sim = sim

    def now(self):
        return self.sim.now

    def worker(self):
        return self.sim.cur.name

    def busy(self, us):
        # CPU time inside user code: the clock moves, and - as under a real GIL, which is handed over every few
        # milliseconds - threads whose deadline passed meanwhile get to run before the action returns
        self.sim.now += int(us)
        self.sim.yield_after_busy()


def _thread_census(sim):
    return tuple(sorted(t.name.split("::")[0].split("-u0")[0] for t in sim.live_threads()))


def exec_sync(sc):
    sched = sc.get("sched") or {}
    rng = random.Random(sched.get("tie_seed", 0))
    sim = Sim(rng, preempt=sched.get("preempt") or (), noise=float(sched.get("noise", 0.0)),
              max_steps=int(sc.get("line_cap", 3_000_000)))
    env = _SyncEnv(sim)
    rec, plugin = _begin_run(sc, env, int(sc.get("budget", 40_000)))
    rec.abort_cb = lambda why: setattr(sim, "aborted", sim.aborted or why)
    _attach_listeners(rec, sc)
    set_current(sim)
    meta = {"engine": "sync", "abort": None, "harness_error": None}
    for fn_, ln_, occ_ in sched.get("preempt_lines") or ():
        sim.preempt_lines[(fn_, int(ln_))] = int(occ_)
    use_lines = bool(sim.preempt or sim.noise or sim.preempt_lines or sc.get("line_monitor"))
    finished = {"v": False}
    if use_lines:
        want_loc = bool(sim.preempt_lines)

        def on_line(code, line):
            if finished["v"]:
                return
            sim.on_line((os.path.basename(code.co_filename), line) if want_loc else None)
        enable_line_monitor(seams.PKG_DIR, on_line)
    st = {"interp": None}
    snapshots = {}
    snap_live = []
    try:
        builder = Builder(sc, rec, env, "sync")
        machine = builder.machine_for(None)
        st["interp"] = SyncInterpreter(machine)
        census = lambda: _thread_census(sim)  # noqa: E731

        def do_op(i, op):
            interp = st["interp"]
            kind = op["op"]
            rec.rec("op-call", i, kind, op.get("event"), op.get("tag"), interp.status)
            out = "ok"
            try:
                if kind == "start":
                    interp.start()
                elif kind == "send":
                    interp.send(_mk_event(op))
                elif kind == "send_events":
                    interp.send_events([dict(e) for e in op["events"]])
                elif kind == "stop":
                    interp.stop()
                elif kind == "can":
                    out = ("can", bool(interp.can(_mk_event(op))))
                elif kind == "snapshot":
                    s = interp.get_snapshot()
                    snapshots[op.get("label", i)] = s
                    live = interp.get_persisted_snapshot()
                    snap_live.append((op.get("label", i), live, copy.deepcopy(live)))
                    out = ("snapshot", s)
                elif kind == "noop":
                    pass
                else:
                    raise ValueError(f"unknown op {kind}")
            except SimAbort:
                raise
            except Exception as e:
                out = ("exc", type(e).__name__, isinstance(e, XStateMachineError), str(e)[:200])
            finally:
                rec.rec("op-ret", i, kind, out, st["interp"].status)

        ops = list(enumerate(sc.get("ops") or []))
        by_client = {}
        for i, op in ops:
            by_client.setdefault(op.get("client", 0), []).append((i, op))

        def client_script(items):
            for i, op in items:
                if sim.aborted:
                    return
                if "t" in op and int(op["t"]) > sim.now:
                    sim.block(wake_at=int(op["t"]))
                do_op(i, op)

        for c, items in sorted(by_client.items()):
            if c != 0:
                sim.spawn(client_script, (items,), name=f"client{c}", kind="client")

        def restore(i, op):
            label = op.get("from", "last")
            text = op.get("text") if "text" in op else snapshots.get(label)
            # crash: abandon the interpreter; its threads die silently
            rec.closed = True
            for t in sim.threads:
                if t.kind == "thread" and t.state != "D":
                    t.abort = True
                    t.state = "D"
                    t.sem.release()
                    if t.real is not None:
                        t.real.join(timeout=5)
            rec.closed = False
            rec.rec("op-call", i, "restore", None, None, None)
            try:
                m2 = builder.fresh_machine(None)
                st["interp"] = SyncInterpreter.from_snapshot(text, m2)
                rec.rec("op-ret", i, "restore", "ok", st["interp"].status)
            except SimAbort:
                raise
            except Exception as e:
                rec.rec("op-ret", i, "restore", ("exc", type(e).__name__, isinstance(e, XStateMachineError), str(e)[:200]), None)

        for i, op in by_client.get(0, []):
            if sim.aborted:
                break
            kind = op["op"]
            tgt = None
            if "t" in op:
                tgt = int(op["t"])
            elif "dt" in op and kind != "advance":
                tgt = sim.now + int(op["dt"])
            if tgt is not None and tgt > sim.now:
                sim.block(wake_at=tgt)
                if op.get("tie", "after") == "after":
                    sim.wait_quiescent()
            if sim.aborted:
                break
            if kind == "advance":
                sim.advance(int(op["dt"]))
                continue
            if kind == "settle":
                sim.wait_quiescent()
                if not sim.aborted:
                    rec.rec("quiescent", i)
                continue
            if kind == "obs":
                observe(rec, st["interp"], op.get("label", f"op{i}"), census)
                continue
            if kind == "restore":
                restore(i, op)
                continue
            do_op(i, op)
            if op.get("wait", True):
                sim.wait_quiescent()
                if op.get("obs", True) and not sim.aborted:
                    observe(rec, st["interp"], f"after-op{i}", census)
        if not sim.aborted:
            end = sc.get("horizon")
            if end is not None and int(end) > sim.now:
                sim.advance(int(end) - sim.now)
            else:
                sim.wait_quiescent()
            if not sim.aborted:
                observe(rec, st["interp"], "final", census)
                for label, live, frozen in snap_live:
                    if live != frozen:
                        rec.rec("snap-mutated", label)
        post = sc.get("post_stop")
        if post and not sim.aborted:
            do_op(10**6, {"op": "stop"})
            sim.wait_quiescent()
            observe(rec, st["interp"], "after-stop", census)
            mark = rec.seq
            sim.advance(int(post))
            rec.rec("post-stop-window", mark)
            observe(rec, st["interp"], "after-stop-late", census)
        meta["abort"] = sim.aborted
    except SimAbort:
        meta["abort"] = sim.aborted or "simabort"
    except Exception as e:
        import traceback
        meta["harness_error"] = f"{type(e).__name__}: {e}\n{traceback.format_exc()[-1500:]}"
    finally:
        finished["v"] = True
        _end_run(rec)
        if use_lines:
            disable_line_monitor()
        alive = sim.finish()
        set_current(None)
        meta["vtime_us"] = sim.now
        meta["steps"] = sim.step
        meta["switches"] = sim.switches
        meta["preempts_done"] = sim.preempts_done
        meta["threads"] = len(sim.threads)
        meta["calls"] = rec.calls
        meta["call_kinds"] = rec.call_kinds
        meta["faults_fired"] = list(rec.faults_fired)
        meta["thread_errors"] = list(getattr(sim, "thread_errors", []))
        if alive:
            meta["harness_error"] = (meta.get("harness_error") or "") + f" leaked threads {alive}"
    return Result(rec.trace, meta, sc)


# ---------------------------------------------------------------------------
# PURE API
# ---------------------------------------------------------------------------

def exec_pure(sc):
    env = Env()
    rec, plugin = _begin_run(sc, env, int(sc.get("budget", 40_000)))
    _ACTIVE["plugin"] = None  # pure API: no plugin attached (probe is internal)
    _ACTIVE["track"] = False
    meta = {"engine": "pure", "abort": None, "harness_error": None}
    sim = Sim(random.Random(0))
    set_current(sim)
    try:
        builder = Builder(sc, rec, env, "pure")
        machine = builder.machine_for(None)
        snap = None
        for i, op in enumerate(sc.get("ops") or []):
            kind = op["op"]
            try:
                if kind == "start":
                    snap, acts = _helpers.initial_transition(machine)
                elif kind == "send":
                    before = (set(snap.state_ids), set(snap.configuration), copy.deepcopy(snap.context), snap.status, snap.output,
                              copy.deepcopy(getattr(snap, "history", None)))
                    new, acts = _helpers.transition(machine, snap, _mk_event(op))
                    after = (set(snap.state_ids), set(snap.configuration), snap.context, snap.status, snap.output, getattr(snap, "history", None))
                    if before != after:
                        rec.rec("pure-input-mutated", i)
                    snap = new
                else:
                    continue
                rec.rec("pure", i, kind, tuple(sorted(snap.configuration)), _jsonable(copy.deepcopy(snap.context)),
                        snap.status, _jsonable(snap.output), tuple(a.type for a in acts))
            except SimAbort:
                raise
            except Exception as e:
                rec.rec("pure-exc", i, kind, type(e).__name__, isinstance(e, XStateMachineError), str(e)[:200])
        meta["threads"] = len(sim.threads) - 1
        meta["user_calls"] = builder.user_calls_in_pure
    except SimAbort:
        meta["abort"] = "simabort"
    except Exception as e:
        import traceback
        meta["harness_error"] = f"{type(e).__name__}: {e}\n{traceback.format_exc()[-1500:]}"
    finally:
        _end_run(rec)
        sim.finish()
        set_current(None)
        meta["calls"] = rec.calls
    return Result(rec.trace, meta, sc)


def execute(sc):
    eng = sc.get("engine", "async")
    if eng == "async":
        return exec_async(sc)
    if eng == "sync":
        return exec_sync(sc)
    if eng == "pure":
        return exec_pure(sc)
    raise ValueError(eng)
