"""Turn the symbolic logic of a scenario into real callables bound to a Recorder.

Scenario logic is data (JSON).  Callables that must appear inside the machine
config (assign functions, pure getters, computed params/delays/outputs ...)
are written there as {"$fn": spec} placeholders and materialised here.
"""
from __future__ import annotations

import asyncio
import copy

from . import seams  # noqa: F401  (installs seams, sets sys.path)
from xstate_statemachine import MachineLogic, create_machine  # noqa: E402

from .recorder import InjectedFault, ev_data, ev_tag, ev_type


class StaticFault(RuntimeError):
    """Raised by a generated callable whose spec says it always raises."""


def _apply_ctx_ops(ctx, ops):
    for op in ops:
        k = op[0]
        if k == "inc":
            ctx[op[1]] = ctx.get(op[1], 0) + op[2]
        elif k == "set":
            ctx[op[1]] = copy.deepcopy(op[2])
        elif k == "app":
            ctx.setdefault(op[1], []).append(op[2])
        elif k == "pop":
            ctx.pop(op[1], None)


class Builder:
    """Builds machines + logic for one run."""

    def __init__(self, scenario, rec, env, engine):
        self.sc = scenario
        self.rec = rec
        self.env = env
        self.engine = engine  # 'async' | 'sync' | 'pure'
        self.svc_activations = {}
        self.machines = {}
        self.pure_mode = engine == "pure"
        self.user_calls_in_pure = 0

    # ---- $fn materialisation -------------------------------------------
    def fn(self, spec):
        k = spec.get("k")
        rec = self.rec
        name = spec.get("name", k)

        if k == "const":
            v = spec.get("v")

            def f_const(args):
                rec.user_call("fn", name)
                rec.rec("ucall", "fn", name)
                return copy.deepcopy(v)
            return f_const
        if k == "ctx":
            key = spec["key"]
            mul = spec.get("mul", 1)
            add = spec.get("add", 0)

            def f_ctx(args):
                rec.user_call("fn", name)
                rec.rec("ucall", "fn", name)
                return args["context"].get(key, 0) * mul + add
            return f_ctx
        if k == "assign":
            ops = spec["ops"]

            def f_assign(args):
                rec.user_call("fn", name)
                c = copy.deepcopy(dict(args["context"]))
                _apply_ctx_ops(c, ops)
                upd = {op[1]: c[op[1]] for op in ops}
                rec.rec("ucall", "assign", name, ev_type(args.get("event")), ev_tag(args.get("event")), upd)
                return upd
            return f_assign
        if k == "evpayload":
            # assign value computed from the triggering event payload
            key = spec["key"]

            def f_evp(args):
                rec.user_call("fn", name)
                ev = args.get("event")
                p = getattr(ev, "payload", None)
                rec.rec("ucall", "fn", name)
                return (p or {}).get(key) if isinstance(p, dict) else None
            return f_evp
        if k == "pure":
            ret = self.mat(spec.get("ret"))

            def f_pure(args):
                rec.user_call("fn", name)
                rec.rec("ucall", "pure", name, ev_type(args.get("event")), ev_tag(args.get("event")))
                return copy.copy(ret)
            return f_pure
        if k == "cmd":
            # pure getter: the actions to run are carried by the triggering event's payload
            def f_cmd(args):
                rec.user_call("fn", name)
                ev = args.get("event")
                p = getattr(ev, "payload", None) or {}
                acts = p.get("acts") or []
                rec.rec("ucall", "cmd", name, p.get("tag"), len(acts))
                return self.mat(copy.deepcopy(acts))
            return f_cmd
        if k == "relay":
            # event spec callable: an event of spec['type'] carrying the tag of the triggering event
            etype = spec["type"]
            extra = spec.get("extra") or {}

            def f_relay(args):
                rec.user_call("fn", name)
                ev = args.get("event")
                p = getattr(ev, "payload", None) or {}
                d = {"type": etype, "tag": p.get("tag")}
                d.update(extra)
                return d
            return f_relay
        if k == "pure_self":
            # a pure getter that re-enqueues the action that contains it (self-feeding expansion)
            limit = spec.get("limit")
            holder = {}
            marker = spec.get("marker")

            def f_pure_self(args):
                rec.user_call("fn", name)
                n = holder["n"] = holder.get("n", 0) + 1
                rec.rec("ucall", "pure-self", name, n)
                out = [marker] if marker else []
                if limit is None or n < limit:
                    out.append({"type": "xstate.pure", "params": {"get": f_pure_self}})
                return out
            f_pure_self.reset = lambda: holder.clear()
            return f_pure_self
        if k == "enq_self":
            limit = spec.get("limit")
            holder = {}
            marker = spec.get("marker")

            def f_enq_self(args):
                rec.user_call("fn", name)
                n = holder["n"] = holder.get("n", 0) + 1
                rec.rec("ucall", "enq-self", name, n)
                if marker:
                    args["enqueue"](marker)
                if limit is None or n < limit:
                    args["enqueue"]({"type": "xstate.enqueueActions", "params": {"callback": f_enq_self}})
            return f_enq_self
        if k == "enq":
            items = self.mat(spec.get("items", []))
            checks = self.mat(spec.get("checks", []))  # list of [guardcfg, item]

            def f_enq(args):
                rec.user_call("fn", name)
                rec.rec("ucall", "enq", name, ev_type(args.get("event")), ev_tag(args.get("event")))
                enq = args["enqueue"]
                for it in items:
                    enq(it)
                for ci, (g, it) in enumerate(checks):
                    try:
                        ok = args["check"](g)
                    except BaseException as e:
                        rec.rec("ucall", "enq-check", name, ci, "exc:" + type(e).__name__)
                        raise
                    rec.rec("ucall", "enq-check", name, ci, bool(ok))
                    if ok:
                        enq(it)
            return f_enq
        if k == "raise":
            def f_raise(args):
                rec.user_call("fn", name)
                rec.rec("ucall", "fn-raise", name)
                raise StaticFault(name)
            return f_raise
        if k == "target":
            v = spec.get("v")

            def f_target(args):
                rec.user_call("fn", name)
                return v
            return f_target
        raise ValueError(f"unknown $fn spec {spec!r}")

    def mat(self, obj):
        if isinstance(obj, dict):
            if "$fn" in obj and len(obj) == 1:
                return self.fn(obj["$fn"])
            return {k: self.mat(v) for k, v in obj.items()}
        if isinstance(obj, list):
            return [self.mat(v) for v in obj]
        return obj

    # ---- actions --------------------------------------------------------
    def make_action(self, name, spec):
        rec, env = self.rec, self.env
        eff = spec.get("eff", [])
        is_async = bool(spec.get("async")) or any(e[0] in ("yield", "sleep", "asend", "astop") for e in eff)
        if self.engine == "async" and any(e[0] in ("send", "stop") for e in eff):
            is_async = True
        if self.engine != "async":
            is_async = bool(spec.get("force_async"))
        builder = self

        def pre(interp, ctx, event):
            if builder.pure_mode:
                builder.user_calls_in_pure += 1
            rec.user_call("action", name)
            rec.rec("act", interp.id, name, ev_type(event), ev_tag(event), ev_data(event))

        def sync_eff(interp, ctx, e):
            k = e[0]
            if k in ("inc", "set", "app", "pop"):
                _apply_ctx_ops(ctx, [e])
            elif k == "slow":
                env.busy(e[1])
            elif k == "raise":
                raise StaticFault(name)
            elif k == "mark":
                pass
            elif k == "probe":
                # record what the action can see of the interpreter (public API)
                rec.rec("probe", interp.id, name, tuple(sorted(interp.current_state_ids)), interp.status)
            else:
                return False
            return True

        if not is_async:
            def action(interp, ctx, event, adef):
                pre(interp, ctx, event)
                for e in eff:
                    if sync_eff(interp, ctx, e):
                        continue
                    k = e[0]
                    if k == "send":
                        rec.rec("act-send", interp.id, e[1], e[2] if len(e) > 2 else None)
                        interp.send(e[1], **({"tag": e[2]} if len(e) > 2 else {}))
                    elif k == "stop":
                        rec.rec("act-stop", interp.id)
                        interp.stop()
                    elif k == "yield":
                        pass
                    elif k == "sleep":
                        env.busy(e[1])
                    else:
                        raise ValueError(f"bad effect {e!r}")
            action.__name__ = f"act_{name}"
            return action

        async def aaction(interp, ctx, event, adef):
            pre(interp, ctx, event)
            for e in eff:
                if sync_eff(interp, ctx, e):
                    continue
                k = e[0]
                if k == "yield":
                    for _ in range(e[1]):
                        await asyncio.sleep(0)
                elif k == "sleep":
                    await asyncio.sleep(e[1] / 1e6)
                elif k in ("send", "asend"):
                    rec.rec("act-send", interp.id, e[1], e[2] if len(e) > 2 else None)
                    await interp.send(e[1], **({"tag": e[2]} if len(e) > 2 else {}))
                elif k in ("stop", "astop"):
                    rec.rec("act-stop", interp.id)
                    await interp.stop()
                else:
                    raise ValueError(f"bad effect {e!r}")
            rec.rec("act-end", interp.id, name)
        aaction.__name__ = f"aact_{name}"
        return aaction

    # ---- guards ---------------------------------------------------------
    def make_guard(self, name, spec):
        rec = self.rec
        k = spec.get("k")
        builder = self

        def evaluate(ctx, event, params):
            if k == "const":
                return bool(spec["v"])
            if k == "ctx_lt":
                return ctx.get(spec["key"], 0) < spec["v"]
            if k == "ctx_ge":
                return ctx.get(spec["key"], 0) >= spec["v"]
            if k == "ctx_eq":
                return ctx.get(spec["key"], 0) == spec["v"]
            if k == "ctx_odd":
                return ctx.get(spec["key"], 0) % 2 == 1
            if k == "raise":
                raise StaticFault(name)
            if k == "params_eq":
                # true iff the params received equal the expected ones
                return params == spec["v"]
            if k == "param_truth":
                return bool((params or {}).get(spec.get("key", "v")))
            raise ValueError(f"bad guard spec {spec!r}")

        if spec.get("arity") == 3 or k in ("params_eq", "param_truth"):
            def guard3(ctx, event, params=None):
                if builder.pure_mode:
                    pass
                rec.user_call("guard", name)
                try:
                    v = evaluate(ctx, event, params)
                except BaseException as e:
                    rec.rec("gcall", name, ev_type(event), ev_tag(event), "raise:" + type(e).__name__, None)
                    raise
                rec.rec("gcall", name, ev_type(event), ev_tag(event), v, params if isinstance(params, (dict, str, int, type(None))) else repr(params))
                return v
            return guard3

        def guard2(ctx, event):
            rec.user_call("guard", name)
            try:
                v = evaluate(ctx, event, None)
            except BaseException as e:
                rec.rec("gcall", name, ev_type(event), ev_tag(event), "raise:" + type(e).__name__, None)
                raise
            rec.rec("gcall", name, ev_type(event), ev_tag(event), v, None)
            return v
        return guard2

    # ---- services -------------------------------------------------------
    def make_service(self, name, spec):
        rec, env = self.rec, self.env
        k = spec.get("k", "sync")
        if k == "machine":
            return self.machine_for(spec["ref"])
        plan = spec.get("plan") or [{"dur": 0, "out": "return"}]
        acts = self.svc_activations

        def begin(interp, event):
            rec.user_call("service", name)
            n = acts.get(name, 0)
            acts[name] = n + 1
            p = plan[n % len(plan)]
            inp = None
            pl = getattr(event, "payload", None)
            if isinstance(pl, dict):
                inp = pl.get("input")
            rec.rec("svc-call", interp.id, name, n, inp, ev_type(event))
            return n, p

        if k == "factory":
            # a services entry that is a callable returning a MachineNode (actor factory)
            ref = spec["ref"]

            def factory(interp, ctx, event):
                rec.user_call("service", name)
                rec.rec("ucall", "factory", name)
                return self.machine_for(ref)
            return factory

        if k == "sync":
            def svc(interp, ctx, event):
                n, p = begin(interp, event)
                if p.get("dur"):
                    env.busy(p["dur"])
                if p.get("out") == "raise":
                    rec.rec("svc-end", name, n, "raise")
                    raise StaticFault(f"svc:{name}:{n}")
                rec.rec("svc-end", name, n, "return")
                return {"svc": name, "act": n}
            svc.__name__ = f"svc_{name}"
            return svc

        async def asvc(interp, ctx, event):
            n, p = begin(interp, event)
            try:
                out = p.get("out", "return")
                if out == "never":
                    await asyncio.get_running_loop().create_future()
                if p.get("dur"):
                    await asyncio.sleep(p["dur"] / 1e6)
                else:
                    for _ in range(p.get("yields", 0)):
                        await asyncio.sleep(0)
                if out == "raise":
                    rec.rec("svc-end", name, n, "raise")
                    raise StaticFault(f"svc:{name}:{n}")
                rec.rec("svc-end", name, n, "return")
                return {"svc": name, "act": n}
            except asyncio.CancelledError:
                rec.rec("svc-end", name, n, "cancelled")
                raise
        asvc.__name__ = f"asvc_{name}"
        return asvc

    # ---- assembling -----------------------------------------------------
    def logic_for(self, lspec):
        actions = {n: self.make_action(n, s) for n, s in (lspec.get("actions") or {}).items()}
        guards = {n: self.make_guard(n, s) for n, s in (lspec.get("guards") or {}).items()}
        services = {n: self.make_service(n, s) for n, s in (lspec.get("services") or {}).items()}
        delays = {}
        for n, s in (lspec.get("delays") or {}).items():
            delays[n] = self.mat(s) if isinstance(s, dict) else s
        return MachineLogic(actions=actions, guards=guards, services=services, delays=delays)

    def machine_for(self, ref):
        """ref None = the main machine; otherwise a key in scenario['children']."""
        if ref in self.machines:
            return self.machines[ref]
        if ref is None:
            cfg, lspec = self.sc["machine"], self.sc.get("logic") or {}
        else:
            ch = self.sc["children"][ref]
            cfg, lspec = ch["machine"], ch.get("logic") or {}
        # placeholder first so recursive references terminate
        logic = self.logic_for(lspec)
        m = create_machine(self.mat(copy.deepcopy(cfg)), logic=logic)
        self.machines[ref] = m
        return m

    def fresh_machine(self, ref=None):
        """Rebuild (no caching) - used for crash/restart and determinism checks."""
        self.machines.pop(ref, None)
        return self.machine_for(ref)
