"""C15 - actor messaging and supervision are exact.

Every machine in the tree is the same small "command interpreter": its single
working state handles CMD by running the actions carried in the event payload
(through a `pure` action), PING / FROMCHILD / FWD with marker actions, FIN by
moving to a top-level final state.  The scenario is therefore a list of
operations whose payloads say which actor actions to run where; the generator
keeps a reference registry (plain dicts) that predicts, for every tagged
message, which actor must receive it - or that it must be dropped.
"""
from __future__ import annotations

import random

from .tracewalk import K, SEQ, T, W, Violation

MS = 1000


def node_machine(mid, root=False):
    acts = {}

    def A(n):
        acts[n] = {"eff": []}
        return n
    on = {
        "CMD": {"actions": [A("cmd"), {"type": "xstate.pure", "params": {"get": {"$fn": {"k": "cmd", "name": "cmd"}}}}]},
        # (the counter makes processed messages visible in the actor's persisted context: C12 compares it after a restore)
        "PING": {"actions": [A("got"), {"type": "xstate.assign", "params": {"assignment": {"$fn": {"k": "assign", "name": "asg_p", "ops": [["inc", "p", 1]]}}}}]},
        "FROMCHILD": {"actions": [A("gotup")]},
        "FIN": {"target": f"#{mid}.end", "actions": [A("fin")]},
    }
    if root:
        on["FWD"] = {"actions": [A("fwd"), {"type": "xstate.forwardTo", "params": {"to": "k1"}}]}
        for k in ("k1", "k2", "k3"):
            on[f"xstate.error.actor.{mid}:{k}"] = {"actions": [A("goterr")]}
    else:
        on["FWD"] = {"actions": [A("gotfwd")]}
    run = {"entry": [A(f"en.{mid}.run")], "exit": [A(f"ex.{mid}.run")], "on": on}
    if root:
        # "invoking a machine ... creates exactly one started child, registered under its id": HOST enters a state that
        # invokes node1 under the invoke id h1, UNHOST leaves it
        run["initial"] = "idle"
        run["states"] = {"idle": {"on": {"HOST": {"target": f"#{mid}.run.hosting", "actions": [A("host")]}}},
                         "hosting": {"invoke": {"src": "node1", "id": "h1"},
                                     "on": {"UNHOST": {"target": f"#{mid}.run.idle", "actions": [A("unhost")]}}}}
    cfg = {"id": mid, "initial": "run", "context": {"p": 0},
           "states": {"run": run,
                      "end": {"type": "final", "entry": [A(f"en.{mid}.end")]}}}
    return cfg, acts


class RefActor:
    def __init__(self, ident, key, parent, system_id=None):
        self.ident = ident          # ('root',) | ('explicit', name) | ('auto', key, ordinal among autos of that key under this parent)
        self.key = key
        self.parent = parent
        self.system_id = system_id
        self.children = []          # insertion order == dict order of _actors
        self.alive = True
        self.done = False
        self.registered = True
        self.orphaned = False
        self.sends = {}             # send id -> expectation of the pending delayed send

    def label(self):
        if self.parent is None:
            return "m"
        me = self.ident[1] if self.ident[0] == "explicit" else f"{self.key}#{self.ident[2]}"
        return f"{self.parent.label()}:{me}"

    def own_segs(self):
        return [self.ident[1]] if self.ident[0] == "explicit" else [self.key, "<uuid>"]


class RefSim:
    """Reference registry + message expectations, driven by the operations of a scenario."""

    def __init__(self):
        self.root = RefActor(("root",), None, None)
        self.registry = {}
        self.hosted = None
        self.auto_count = {}
        self.expect = []
        self.stops = {}       # op index -> label stopped
        self.reuse = False
        self.fuzzy = False    # a finished child exists: key-based resolution is engine-specific from here on

    def all(self):
        out = []

        def walk(a):
            out.append(a)
            for c in a.children:
                walk(c)
        walk(self.root)
        return out

    def resolve(self, actor, spec):
        if not isinstance(spec, str):
            return None, "unresolved"
        if spec in self.registry:
            return self.registry[spec], "systemId"
        live = [c for c in actor.children if c.registered]
        matches = [c for c in live if spec in c.own_segs()]
        if len(matches) == 1:
            return matches[0], "segment"
        if len(matches) > 1:
            return None, "ambiguous"
        for c in live:
            if c.key == spec:
                return c, "source-key"
        if spec in ("parent", "#parent") and actor.parent is not None:
            return actor.parent, "parent"
        return None, "unresolved"

    def _kill(self, a, t):
        a.alive = False
        for c in a.children:
            self._kill(c, t)
        for e in self.expect:
            if e["to"] == a.label() and e["due"] is not None and e["due"] >= t:
                e["to_alive"] = False
            if e["sender"] == a.label() and e["due"] is not None and e["cancelled"] is False:
                # a stopped actor's own pending delayed sends are cancelled with it
                if e["due"] > t:
                    e["cancelled"] = True
                elif e["due"] == t:
                    e["cancelled"] = None

    def apply_op(self, i, op):
        if op.get("op") != "send" or not isinstance(op.get("event"), dict):
            return
        ev = op["event"]
        t = int(op.get("t", 0))
        if ev.get("type") == "CMD":
            self.run_acts(self.root, ev.get("acts") or [], t, i)
        elif ev.get("type") == "HOST":
            if self.root.alive and not self.root.done and self.hosted is None:
                for e in [c for c in self.root.children if c.ident == ("explicit", "h1") and c.registered]:
                    self._kill(e, t)
                    e.registered = False
                child = RefActor(("explicit", "h1"), "node1", self.root, None)
                self.root.children.append(child)
                self.hosted = child
        elif ev.get("type") == "UNHOST":
            if self.root.alive and not self.root.done and self.hosted is not None:
                h = self.hosted
                self.hosted = None
                if h.registered and h.alive:
                    self._kill(h, t)
                    h.registered = False
                    for sid_, ac in list(self.registry.items()):
                        a_ = ac
                        while a_ is not None and a_ is not h:
                            a_ = a_.parent
                        if a_ is h:
                            del self.registry[sid_]
                    self.stops[i] = h.label()
        elif ev.get("type") == "FWD":
            k1, why = self.resolve(self.root, "k1")
            self.expect.append({"tag": ev.get("tag"), "to": k1.label() if k1 else None, "reason": "forward" if k1 else why, "sent_at": t, "due": None,
                                "cancelled": False, "sender": "m", "to_alive": bool(k1 and k1.alive and not k1.done), "type": "FWD",
                                "fuzzy": self.fuzzy})

    def run_acts(self, actor, acts, t, opi):
        if not actor.alive or actor.done:
            return
        for a in acts:
            typ = a.get("type") if isinstance(a, dict) else a
            prm = (a.get("params") or {}) if isinstance(a, dict) else {}
            if typ == "xstate.spawnChild" or (isinstance(typ, str) and typ.startswith("spawn_")):
                src = prm.get("src") if typ == "xstate.spawnChild" else typ[len("spawn_"):]
                explicit = prm.get("id")
                system_id = prm.get("systemId")
                if explicit:
                    for e in [c for c in actor.children if c.ident == ("explicit", explicit) and c.registered]:
                        # re-using an id supersedes (stops) the actor registered under it
                        self._kill(e, t)
                        e.registered = False
                        for sid_, ac in list(self.registry.items()):
                            a_ = ac
                            while a_ is not None and a_ is not e:
                                a_ = a_.parent
                            if a_ is e:
                                del self.registry[sid_]
                        self.reuse = True
                    child = RefActor(("explicit", explicit), src, actor, system_id)
                else:
                    # ordinal among ALL auto children ever started under this label path (a respawned parent
                    # with a reused explicit id has the same path as its predecessor)
                    ck = (actor.label(), src)
                    n = self.auto_count.get(ck, 0)
                    self.auto_count[ck] = n + 1
                    child = RefActor(("auto", src, n), src, actor, system_id)
                actor.children.append(child)
                if system_id:
                    self.registry[system_id] = child
            elif typ in ("xstate.sendTo", "xstate.sendParent"):
                evs = prm.get("event") or {}
                if typ == "xstate.sendParent":
                    target, reason = (actor.parent, "parent") if actor.parent is not None else (None, "unresolved")
                else:
                    to = prm.get("to")
                    if isinstance(to, dict) and "$fn" in to:
                        to = to["$fn"].get("v")
                    target, reason = self.resolve(actor, to)
                delay = prm.get("delay")
                due = t + int(delay) * MS if delay else None
                if evs.get("type") == "CMD":
                    if target is not None and not delay:
                        self.run_acts(target, evs.get("acts") or [], t, opi)
                    continue
                e = {"tag": evs.get("tag"), "to": target.label() if target is not None else None, "reason": reason, "sent_at": t, "due": due,
                     "cancelled": False, "sender": actor.label(),
                     "to_alive": bool(target is not None and target.alive and not target.done and not getattr(target, "fuzzy_alive", False)),
                     "type": evs.get("type"), "fuzzy": self.fuzzy}
                if evs.get("type") == "FIN":
                    if target is not None and target.alive and not delay:
                        target.done = True
                        self.fuzzy = True
                        # what happens to the descendants of a child that completed on its own differs per engine (unspecified)
                        def _fz(a):
                            for c in a.children:
                                c.fuzzy_alive = True
                                _fz(c)
                        _fz(target)
                        for x in self.expect:
                            if x["to"] is not None and (x["to"] == target.label() or x["to"].startswith(target.label() + ":")) and x["due"] is not None and x["due"] >= t:
                                x["to_alive"] = False
                            if x["sender"] is not None and (x["sender"] == target.label() or x["sender"].startswith(target.label() + ":")) and x["due"] is not None and x["due"] >= t and x["cancelled"] is False:
                                x["cancelled"] = None
                    continue
                sid = prm.get("id")
                if sid and delay and target is not None:
                    prev = actor.sends.get(sid)
                    if prev is not None and prev["due"] is not None:
                        if prev["due"] > t and (target.done or getattr(target, "fuzzy_alive", False) or not target.alive):
                            # whether a send to a child that has completed on its own still resolves (and therefore
                            # supersedes) is the unspecified, engine-specific zone
                            prev["cancelled"] = None
                        elif prev["due"] > t:
                            prev["cancelled"] = True      # re-using a send id supersedes the pending send
                        elif prev["due"] == t:
                            prev["cancelled"] = None
                    actor.sends[sid] = e
                self.expect.append(e)
            elif typ == "xstate.cancel":
                sid = prm.get("sendId")
                e = actor.sends.pop(sid, None)
                if e is not None and e["due"] is not None:
                    if e["due"] > t:
                        e["cancelled"] = True
                    elif e["due"] == t:
                        e["cancelled"] = None
            elif typ == "xstate.stopChild":
                target, reason = self.resolve(actor, prm.get("id"))
                if target is not None and target is not actor.parent and (target.done or getattr(target, "fuzzy_alive", False)):
                    self._kill(target, t)
                    target.registered = False
                elif target is not None and target is not actor.parent:
                    self._kill(target, t)
                    target.registered = False
                    # "... stop the child and all its descendants and remove them from the children map and the system registry"
                    for sid_, ac in list(self.registry.items()):
                        a_ = ac
                        while a_ is not None and a_ is not target:
                            a_ = a_.parent
                        if a_ is target:
                            del self.registry[sid_]
                    if actor is self.root:
                        self.stops[opi] = target.label()


def gen_c15(engine, mode="mixed"):
    def g(seed):
        rng = random.Random(seed * 7919 + 15)
        hosts = rng.random() < 0.5
        root_cfg, root_acts = node_machine("m", root=True)
        c1, a1 = node_machine("c1")
        c2, a2 = node_machine("c2")
        children = {"node1": {"machine": c1, "logic": {"actions": a1, "guards": {}, "services": {"node2": {"k": "machine", "ref": "node2"}}, "delays": {}}},
                    "node2": {"machine": c2, "logic": {"actions": a2, "guards": {}, "services": {}, "delays": {}}}}
        logic = {"actions": root_acts, "guards": {}, "services": {"node1": {"k": "machine", "ref": "node1"},
                                                                   "node1f": {"k": "factory", "ref": "node1"}}, "delays": {}}
        ref = RefSim()
        ops = [{"op": "start", "t": 0}]
        t = 0
        tag = [0]

        def new_tag():
            tag[0] += 1
            return tag[0]

        def push(ev, t):
            op = {"op": "send", "event": ev, "t": t}
            ops.append(op)
            ref.apply_op(len(ops) - 1, op)

        def spawn_action(parent, lvl):
            key = "node1" if lvl == 1 else "node2"
            src = key if (lvl == 2 or rng.random() < 0.8) else "node1f"
            explicit = None
            if rng.random() < 0.6:
                explicit = rng.choice(("k1", "k2", "k3") if lvl == 1 else ("g1", "g2"))
            system_id = rng.choice(("sysA", "sysB")) if rng.random() < 0.35 else None
            if explicit is not None:
                existing = [c for c in parent.children if c.ident == ("explicit", explicit) and c.registered]
                if existing and (mode != "reuse" or rng.random() < 0.4):
                    return None
            if explicit is not None and rng.random() < 0.5:
                return {"type": f"spawn_{src}", "params": {"id": explicit, **({"systemId": system_id} if system_id else {})}}
            if explicit is None and not system_id and rng.random() < 0.5:
                return {"type": f"spawn_{src}"}
            return {"type": "xstate.spawnChild", "params": {"src": src, "id": explicit, "systemId": system_id}}

        def wrap_for(actor, acts):
            chain = []
            a = actor
            while a.parent is not None:
                chain.append(a)
                a = a.parent
            cur = acts
            for node in chain:
                if node.ident[0] != "explicit" or not node.registered or not node.alive or node.done:
                    return None
                # the bare id must resolve uniquely from the parent
                tgt, _why = ref.resolve(node.parent, node.ident[1])
                if tgt is not node:
                    return None
                cur = [{"type": "xstate.sendTo", "params": {"to": node.ident[1], "event": {"type": "CMD", "tag": new_tag(), "acts": cur}}}]
            return cur

        for _ in range(rng.randint(5, 14)):
            t = t + rng.choice((0, 0, 10, 10, 20, 50)) * MS
            alive = [a for a in ref.all() if a.alive and a.registered and not a.done]
            r = rng.random()
            if hosts and rng.random() < 0.14:
                push({"type": "UNHOST" if ref.hosted is not None else "HOST", "tag": new_tag()}, t)
                t += 20 * MS   # the asyncio engine starts / stops an invoked machine in a managing task
                continue
            if r < 0.28:
                lvl1 = [a for a in alive if a.parent is ref.root and a.ident[0] == "explicit"]
                if lvl1 and rng.random() < 0.35:
                    par = rng.choice(lvl1)
                    act = spawn_action(par, 2)
                    acts = wrap_for(par, [act]) if act else None
                else:
                    act = spawn_action(ref.root, 1)
                    acts = [act] if act else None
                if acts:
                    push({"type": "CMD", "tag": new_tag(), "acts": acts}, t)
                continue
            if r < 0.62:
                senders = [a for a in alive if a.parent is None or (a.ident[0] == "explicit" and a.parent is ref.root)]
                sender = rng.choice(senders)
                kids = [c for c in sender.children if c.registered]
                choices = ["nobody"]
                if kids:
                    k = rng.choice(kids)
                    choices += [k.ident[1] if k.ident[0] == "explicit" else k.key] * 3
                    choices.append(k.key)
                choices += list(ref.registry.keys())
                if sender.parent is not None:
                    choices += ["parent-send"] * 2
                spec = rng.choice(choices)
                tg = new_tag()
                if spec == "parent-send":
                    prm = {"event": {"type": "FROMCHILD", "tag": tg}}
                    pdelay = rng.choice((None, None, 10, 20, 50))
                    if pdelay:
                        # a delayed sendParent, with an id it can be cancelled (or superseded) by
                        prm["delay"] = pdelay
                        if rng.random() < 0.7:
                            prm["id"] = rng.choice(("s1", "s2"))
                    act = {"type": "xstate.sendParent", "params": prm}
                    delay = None
                else:
                    delay = rng.choice((None, None, 10, 20, 50, 0))
                    to = spec if rng.random() < 0.8 else {"$fn": {"k": "target", "name": "tgt", "v": spec}}
                    prm = {"to": to, "event": {"type": "PING", "tag": tg}}
                    if delay == 0:
                        prm["delay"] = 0   # a delay that resolves to 0 is an immediate send: same order as undelayed ones
                        # followed at once by an undelayed send from the same sender to the same target (ordering)
                        tg2 = new_tag()
                        act2 = {"type": "xstate.sendTo", "params": {"to": spec, "event": {"type": "PING", "tag": tg2}}}
                    if delay:
                        prm["delay"] = delay
                        if rng.random() < 0.6:
                            prm["id"] = rng.choice(("s1", "s2"))
                    act = {"type": "xstate.sendTo", "params": prm}
                pair = [act, act2] if (spec != "parent-send" and delay == 0) else [act]
                acts = pair if sender.parent is None else wrap_for(sender, pair)
                if acts:
                    push({"type": "CMD", "tag": new_tag(), "acts": acts}, t)
                continue
            if r < 0.72:
                cands = [a for a in alive if a.sends and (a.parent is None or (a.ident[0] == "explicit" and a.parent is ref.root))]
                if cands:
                    who = rng.choice(cands)
                    sid = rng.choice(sorted(who.sends))
                    cact = [{"type": "xstate.cancel", "params": {"sendId": sid}}]
                    acts = cact if who.parent is None else wrap_for(who, cact)
                    if acts:
                        push({"type": "CMD", "tag": new_tag(), "acts": acts}, t)
                continue
            if r < 0.84:
                kids = [c for c in ref.root.children if c.registered and c.alive]
                if kids:
                    k = rng.choice(kids)
                    spec = k.ident[1] if k.ident[0] == "explicit" else k.key
                    push({"type": "CMD", "tag": new_tag(), "acts": [{"type": "xstate.stopChild", "params": {"id": spec}}]}, t)
                continue
            if r < 0.88:
                kids = [c for c in ref.root.children if c.registered and c.alive and c.ident[0] == "explicit" and not c.done]
                if kids:
                    k = rng.choice(kids)
                    push({"type": "CMD", "tag": new_tag(), "acts": [{"type": "xstate.sendTo", "params": {"to": k.ident[1], "event": {"type": "FIN"}}}]}, t)
                continue
            if r < 0.95:
                push({"type": "FWD", "tag": new_tag()}, t)
                continue
            kids = [c for c in ref.root.children if c.registered and c.alive and c.ident[0] == "explicit" and not c.done]
            if kids:
                k = rng.choice(kids)
                acts = wrap_for(k, [{"type": "xstate.escalate", "params": {"error": "boom"}}])
                if acts:
                    push({"type": "CMD", "tag": new_tag(), "acts": acts}, t)
        sc = {"format": 1, "engine": engine, "seed": seed, "salt": seed % 991, "machine": root_cfg, "logic": logic, "children": children,
              "ops": ops, "sched": {"tie_seed": seed % 1013}, "horizon": t + 200 * MS, "post_stop": 200 * MS, "c15": {"mode": mode}}
        return sc
    return g


def reference(sc):
    ref = RefSim()
    for i, op in enumerate(sc["ops"]):
        ref.apply_op(i, op)
    return ref


# ---------------------------------------------------------------------------
def _label_map(res):
    """reference label -> actual interpreter id, using creation order (i-start records)."""
    created = [r[4] for r in res.trace if r[K] == "i-start"]
    m = {"m": "m"}
    autos = {}
    out = {}
    for iid in created:
        out[iid] = iid
    return created


def resolve_label(label, created):
    """'m:k1:g2' is the real id; 'm:node1#0' means the first auto child with prefix 'm:node1:'."""
    parts = label.split(":")
    cur = parts[0]
    for p in parts[1:]:
        if "#" in p:
            key, n = p.split("#")
            pref = f"{cur}:{key}:"
            cands = [c for c in created if c.startswith(pref) and ":" not in c[len(pref):]]
            if int(n) >= len(cands):
                return None
            cur = cands[int(n)]
        else:
            cur = f"{cur}:{p}"
    return cur


def oracle_c15(sc, res):
    ref = reference(sc)
    info = {"expect": ref.expect, "reuse": ref.reuse}
    vios = []
    if res.meta.get("abort"):
        return vios
    eng = sc["engine"]
    created = []
    for r in res.trace:
        if r[K] == "i-start" and r[4] not in created:
            created.append(r[4])
    recv_by_tag = {}
    for r in res.trace:
        if r[K] == "recv" and r[6] is not None and r[5] in ("PING", "FROMCHILD", "FWD"):
            recv_by_tag.setdefault(r[6], []).append(r)
    warn = [r for r in res.trace if r[K] == "log" and r[5] == "WARNING"]
    sig0 = {"engine": eng, "reused_id_in_run": bool(info.get("reuse"))}
    for e in info["expect"]:
        if e.get("fuzzy") and e["reason"] in ("source-key", "segment", "ambiguous", "unresolved"):
            continue  # after a child has completed, whether it still counts for key-based lookup differs per engine (unspecified)
        got = [g for g in recv_by_tag.get(e["tag"], []) if not (e["type"] == "FWD" and g[4] == "m")]
        sig = dict(sig0, reason=e["reason"], delayed=e["due"] is not None, msg=e["type"])
        if e["to"] is None:
            if got:
                vios.append(Violation("C15", "delivered-to-unaddressable-target", sig,
                                      f"tag {e['tag']} ({e['reason']}) must be dropped but was received by {[g[4] for g in got]}"))
            continue
        want = resolve_label(e["to"], created)
        if e["cancelled"] is True:
            if got:
                vios.append(Violation("C15", "cancelled-send-delivered", sig, f"tag {e['tag']} was cancelled before it was due but was delivered to {[g[4] for g in got]}"))
            continue
        if e["cancelled"] is None:
            continue
        if len(got) > 1:
            vios.append(Violation("C15", "delivered-twice", sig, f"tag {e['tag']} received {len(got)} times by {[g[4] for g in got]}"))
            continue
        if got and want is not None and got[0][4] != want:
            vios.append(Violation("C15", "delivered-to-wrong-actor", sig, f"tag {e['tag']} addressed to {e['to']} ({want}) via {e['reason']} but received by {got[0][4]}"))
            continue
        if not got and e["to_alive"]:
            vios.append(Violation("C15", "message-lost", sig, f"tag {e['tag']} addressed to {e['to']} ({want}) via {e['reason']} was never received"))
            continue
        if got and e["due"] is not None and got[0][T] < e["due"]:
            vios.append(Violation("C15", "delayed-send-early", sig, f"tag {e['tag']} due at {e['due']}us was received at {got[0][T]}us"))
    # per sender -> receiver order (non-delayed messages)
    by_pair = {}
    for e in info["expect"]:
        if e["to"] is None or e["due"] is not None or e["cancelled"]:
            continue
        by_pair.setdefault((e["sender"], e["to"], e["type"]), []).append(e["tag"])
    for (snd, to, typ), tags in by_pair.items():
        order = []
        real_to = resolve_label(to, created)
        for r in res.trace:
            if r[K] == "recv" and r[6] in tags and r[5] == typ and r[4] == real_to:
                order.append(r[6])
        want = [x for x in tags if x in order]
        if order != want:
            vios.append(Violation("C15", "delivery-order", sig0, f"{snd}->{to}: sent {want}, received {order}"))
    # supervision: stopped actors are stopped, unregistered, and silent afterwards
    stop_seq = {}
    for i, op in enumerate(sc["ops"]):
        if i in ref.stops:
            op = dict(op, stops=ref.stops[i])
            ret = [r for r in res.trace if r[K] == "op-ret" and r[4] == i]
            obs = [r for r in res.trace if r[K] == "obs" and r[4] == f"after-op{i}"]
            if not ret or not obs:
                continue
            real = resolve_label(op["stops"], created)
            if real is None:
                continue
            o = obs[0][6]
            for iid, status, _par in o["interps"]:
                if iid == real or iid.startswith(real + ":"):
                    if status != "stopped":
                        vios.append(Violation("C15", "stopchild-left-running", dict(sig0, descendant=iid != real),
                                              f"after stopChild({op['stops']}): actor {iid} has status {status}"))
            if real in o["actors"]:
                vios.append(Violation("C15", "stopchild-still-registered", sig0, f"after stopChild: {real} still in the children map"))
            left = [v_ for v_ in o["system_live"].values() if v_ == real or str(v_).startswith(real + ":")]
            if left:
                vios.append(Violation("C15", "stopchild-still-in-system", dict(sig0, descendant=left[0] != real),
                                      f"after stopChild({op['stops']}): {left} still in the system registry"))
            respawned = set()
            for r in res.trace:
                if r[SEQ] <= obs[0][SEQ]:
                    continue
                if r[K] == "i-start":
                    respawned.add(r[4])  # the id was spawned again later: a different actor
                if r[K] in ("recv", "act", "trans") and isinstance(r[4], str) and (r[4] == real or r[4].startswith(real + ":")):
                    if any(r[4] == x or r[4].startswith(x + ":") for x in respawned):
                        continue
                    vios.append(Violation("C15", "stopped-actor-active", sig0, f"stopped actor {r[4]} produced {r[K]} {r[5:7]} after stopChild"))
                    break
    # registry consistency at every observation: children map == alive registered children (by count per parent)
    fin = [r for r in res.trace if r[K] == "obs" and r[4] == "after-stop"]
    if fin:
        o = fin[-1][6]
        alive = [(iid, st) for iid, st, _p in o["interps"] if st not in ("stopped",)]
        if alive:
            orphan = bool(info.get("reuse"))
            vios.append(Violation("C15", "descendant-survived-parent-stop", dict(sig0),
                                  f"after the root's stop(): still not stopped: {alive[:4]}"))
        late_obs = [r for r in res.trace if r[K] == "obs" and r[4] == "after-stop-late"]
        census = o["census"]
        if eng == "sync" and late_obs:
            # a non-blocking child's runner thread polls every 10 ms: it may still be waking up when stop() returns;
            # it must be gone once the clock has moved on
            census = tuple(c for c in census if not str(c).startswith("actor-")) + tuple(late_obs[-1][6]["census"])
        if census:
            vios.append(Violation("C15", "alive-after-parent-stop", dict(sig0), f"after the root's stop(): tasks/threads alive {census}"))
        late = [r for r in res.trace if r[SEQ] > fin[-1][SEQ] and r[K] in ("recv", "act", "trans")]
        if late:
            vios.append(Violation("C15", "activity-after-parent-stop", dict(sig0), f"after the root's stop(): {late[0][K]} by {late[0][4]}"))
    return vios


def stats_c15(sc, res):
    ref = reference(sc)
    info = {"expect": ref.expect, "reuse": ref.reuse}
    s = {"actors_created": len({r[4] for r in res.trace if r[K] == "i-start"}) - 1, "messages_expected": len(info["expect"]),
         "expected_drops": sum(1 for e in info["expect"] if e["to"] is None), "cancelled": sum(1 for e in info["expect"] if e["cancelled"]),
         "delayed": sum(1 for e in info["expect"] if e["due"] is not None), "stopchild_ops": len(ref.stops),
         "reused_id_runs": 1 if info.get("reuse") else 0}
    return s
