"""The harness's own tree model of a machine config (never reads StateNode).

Used by oracles: legality of configurations, default descent, ancestor /
LCA relations, declared transitions with their resolved targets, reference
transition selection (C02) and reference guard evaluation (C06).
"""
from __future__ import annotations


class Node:
    __slots__ = ("id", "key", "parent", "kind", "children", "initial", "history", "hist_default",
                 "cfg", "depth", "doc", "on", "always", "on_done", "after", "invoke", "entry", "exit", "output")

    def __repr__(self):
        return f"<{self.kind} {self.id}>"

    def is_leaf_kind(self):
        return self.kind in ("atomic", "final")

    def ancestors(self, include_self=False):
        n = self if include_self else self.parent
        while n is not None:
            yield n
            n = n.parent

    def is_descendant_of(self, other, strict=True):
        n = self.parent if strict else self
        while n is not None:
            if n is other:
                return True
            n = n.parent
        return False

    def regions(self):
        return [c for c in self.children if c.kind != "history"]


class Trans:
    __slots__ = ("tid", "source", "event", "target_raw", "target", "reenter", "guard", "actions", "kind",
                 "delay", "forbidden", "index", "invoke_id")

    def __repr__(self):
        return f"<T {self.tid} {self.source.id} -{self.event}-> {self.target.id if self.target else None}>"

    @property
    def internal(self):
        """No exit/entry: targetless, or self-target without reenter."""
        return self.target is None or (self.target is self.source and not self.reenter)


def _as_list(x):
    if x is None:
        return []
    return x if isinstance(x, list) else [x]


def _norm_transitions(cfg):
    if cfg is None:
        return [{"__forbidden__": True}]
    if isinstance(cfg, str):
        return [{"target": cfg}]
    if isinstance(cfg, dict):
        return [cfg]
    out = []
    for it in cfg:
        out.append({"target": it} if isinstance(it, str) else it)
    return out


def action_type(a):
    return a if isinstance(a, str) else a.get("type")


class Model:
    def __init__(self, config):
        self.config = config
        self.by_id = {}
        self.by_key = {}
        self.trans = {}  # tid -> Trans
        self.all_trans = []
        self._doc = 0
        self.root = self._build(config, config["id"], None)
        self.max_iterations = int(config.get("maxIterations", 1000))
        for n in self.by_id.values():
            self._parse_transitions(n)
        for t in self.all_trans:
            t.target = self.resolve(t.target_raw, t.source) if t.target_raw else None
        for n in self.by_id.values():
            if n.kind == "history":
                raw = n.cfg.get("target")
                n.hist_default = self.resolve(raw, n) if raw else None

    # -- construction -----------------------------------------------------
    def _build(self, cfg, key, parent):
        n = Node()
        n.key = key
        n.parent = parent
        n.id = f"{parent.id}.{key}" if parent else key
        n.cfg = cfg
        n.depth = parent.depth + 1 if parent else 0
        n.doc = self._doc
        self._doc += 1
        if "states" in cfg:
            t = cfg.get("type", "compound")
            n.kind = t if t in ("compound", "parallel") else "compound"
        elif cfg.get("type") == "final":
            n.kind = "final"
        elif cfg.get("type") == "history":
            n.kind = "history"
        else:
            n.kind = "atomic"
        n.history = cfg.get("history", "shallow") if n.kind == "history" else None
        n.hist_default = None
        n.output = cfg.get("output")
        n.children = []
        self.by_id[n.id] = n
        self.by_key.setdefault(key, []).append(n)
        for k, c in (cfg.get("states") or {}).items():
            n.children.append(self._build(c, k, n))
        n.initial = cfg.get("initial")
        if n.kind == "compound" and not n.initial:
            cands = [c.key for c in n.children if c.kind != "history"]
            if len(cands) == 1:
                n.initial = cands[0]
        n.on, n.always, n.on_done, n.after, n.invoke = {}, [], None, {}, []
        n.entry = [action_type(a) for a in _as_list(cfg.get("entry"))]
        n.exit = [action_type(a) for a in _as_list(cfg.get("exit"))]
        return n

    def _mk(self, n, event, tcfg, kind, index, delay=None, invoke_id=None):
        t = Trans()
        t.source = n
        t.event = event
        t.target_raw = tcfg.get("target")
        t.target = None
        t.reenter = bool(tcfg.get("reenter", False))
        t.guard = tcfg.get("guard", tcfg.get("cond"))
        t.actions = _as_list(tcfg.get("actions"))
        t.kind = kind
        t.delay = delay
        t.index = index
        t.invoke_id = invoke_id
        t.forbidden = bool(tcfg.get("__forbidden__"))
        tid = None
        if t.actions:
            a0 = action_type(t.actions[0])
            if isinstance(a0, str) and a0.startswith("tr."):
                tid = a0[3:]
        t.tid = tid or f"_anon{len(self.all_trans)}"
        self.trans[t.tid] = t
        self.all_trans.append(t)
        return t

    def _parse_transitions(self, n):
        cfg = n.cfg
        for ev, tc in (cfg.get("on") or {}).items():
            lst = [self._mk(n, ev, c, "on", i) for i, c in enumerate(_norm_transitions(tc))]
            if ev == "":
                n.always.extend(lst)
                for t in lst:
                    t.kind = "always"
            else:
                n.on[ev] = lst
        if cfg.get("always") is not None:
            base = len(n.always)
            n.always.extend(self._mk(n, "", c, "always", base + i) for i, c in enumerate(_norm_transitions(cfg["always"])))
        if cfg.get("onDone"):
            lst = _norm_transitions(cfg["onDone"])
            if lst:
                n.on_done = self._mk(n, f"done.state.{n.id}", lst[0], "onDone", 0)
        for d, tc in (cfg.get("after") or {}).items():
            n.after[d] = [self._mk(n, f"after.{d}.{n.id}", c, "after", i, delay=d)
                          for i, c in enumerate(_norm_transitions(tc))]
        for ic in _as_list(cfg.get("invoke")):
            iid = ic.get("id", n.id)
            inv = {"id": iid, "src": ic.get("src"), "input": ic.get("input"),
                   "on_done": [self._mk(n, f"done.invoke.{iid}", c, "invoke.done", i, invoke_id=iid)
                               for i, c in enumerate(_norm_transitions(ic.get("onDone", [])))],
                   "on_error": [self._mk(n, f"error.platform.{iid}", c, "invoke.error", i, invoke_id=iid)
                                for i, c in enumerate(_norm_transitions(ic.get("onError", [])))]}
            n.invoke.append(inv)

    # -- target resolution (the spellings the generator emits) -------------
    def _descend_path(self, base, segs):
        cur = base
        for s in segs:
            nxt = [c for c in cur.children if c.key == s]
            if not nxt:
                return None
            cur = nxt[0]
        return cur

    def resolve(self, target, ref):
        if not target:
            return None
        if target.startswith("#"):
            segs = target[1:].split(".")
            if segs[0] == self.root.key:
                r = self._descend_path(self.root, segs[1:])
                if r is not None:
                    return r
            # custom ids
            for n in self.by_id.values():
                if n is not self.root and n.cfg.get("id") == segs[0]:
                    return self._descend_path(n, segs[1:])
            return None
        if target == ".":
            return ref.parent or ref
        if target.startswith("."):
            base = ref.parent or ref
            return self._descend_path(base, target[1:].split("."))
        segs = target.split(".")
        for start in (ref, ref.parent, self.root):
            cur = start
            while cur is not None:
                r = self._descend_path(cur, segs)
                if r is not None:
                    return r
                if len(segs) == 1 and segs[0] == cur.key:
                    return cur
                cur = cur.parent
        if len(segs) == 1:
            c = self.by_key.get(segs[0])
            if c:
                return c[0]
        return None

    # -- structural helpers -------------------------------------------------
    def node(self, sid):
        return self.by_id.get(sid)

    def legal_problems(self, ids):
        """Return a list of violations of the legality predicate (empty = legal)."""
        probs = []
        ids = set(ids)
        unknown = [i for i in ids if i not in self.by_id]
        if unknown:
            probs.append(("unknown-state", tuple(sorted(unknown))))
            ids = {i for i in ids if i in self.by_id}
        if self.root.id not in ids:
            probs.append(("root-inactive", self.root.id))
        for i in sorted(ids):
            n = self.by_id[i]
            if n.kind == "history":
                probs.append(("history-active", i))
            if n.parent is not None and n.parent.id not in ids:
                probs.append(("orphan", i))
            if n.kind == "compound":
                act = [c.id for c in n.children if c.id in ids]
                if len(act) != 1:
                    probs.append(("compound-children", i, len(act)))
            elif n.kind == "parallel":
                missing = [c.id for c in n.regions() if c.id not in ids]
                if missing:
                    probs.append(("parallel-region-missing", i, tuple(missing)))
        return probs

    def descend(self, n, out=None):
        """Default entry below (and including) n: initial chains, all regions."""
        if out is None:
            out = []
        out.append(n)
        if n.kind == "compound":
            ch = [c for c in n.children if c.key == n.initial]
            if ch:
                self.descend(ch[0], out)
        elif n.kind == "parallel":
            for c in n.regions():
                self.descend(c, out)
        return out

    def initial_config(self):
        return {n.id for n in self.descend(self.root)}

    def leaves(self, ids):
        return [self.by_id[i] for i in ids if i in self.by_id and self.by_id[i].kind in ("atomic", "final")]

    def lca(self, a, b):
        """Least common proper-or-self ancestor of two nodes."""
        anc = set(id(x) for x in a.ancestors(include_self=True))
        for x in b.ancestors(include_self=True):
            if id(x) in anc:
                return x
        return self.root

    def is_done(self, n, ids):
        """Recursive doneness as the implementation defines it (final child active / all regions done)."""
        if n.kind == "final":
            return True
        if n.kind == "compound":
            act = [c for c in n.children if c.id in ids]
            return bool(act) and self.is_done(act[0], ids)
        if n.kind == "parallel":
            regs = n.regions()
            return bool(regs) and all(r.id in ids and self.is_done(r, ids) for r in regs)
        return False

    def strict_done(self, n, ids):
        """SCXML reading: compound done iff its active *direct* child is final;
        parallel done iff every region is strict-done."""
        if n.kind == "compound":
            act = [c for c in n.children if c.id in ids]
            return bool(act) and act[0].kind == "final"
        if n.kind == "parallel":
            regs = n.regions()
            return bool(regs) and all(r.id in ids and self.strict_done(r, ids) for r in regs)
        return False

    # -- reference selection (C02) ------------------------------------------
    def candidates(self, n, etype, event_kind="plain", src=None):
        """Declared candidates on node n for this event, in declaration order.

        Keys are matched by the reference `match_descriptors` below (identical key, partial descriptors by decreasing
        prefix length, bare wildcard; engine-raised events by their exact handler only).
        Returns (list, blocked) where blocked is True when a forbidden
        transition consumes the event at this node.
        """
        out = []
        blocked = False
        if etype != "":
            for key in match_descriptors(n.on, etype):
                for t in n.on[key]:
                    if t.forbidden:
                        blocked = True
                        break
                    out.append(t)
                if blocked:
                    break
        if not blocked:
            if etype == "" or not etype.startswith(("done.", "error.", "after.")):
                if etype == "":
                    out.extend(n.always)
            if n.on_done is not None and n.on_done.event == etype:
                out.append(n.on_done)
            if event_kind == "after":
                for lst in n.after.values():
                    out.extend(t for t in lst if t.event == etype)
            if event_kind == "done":
                for inv in n.invoke:
                    if src == inv["id"]:
                        out.extend(t for t in inv["on_done"] + inv["on_error"] if t.event == etype)
        return out, blocked

    def nominate(self, ids, etype, guard_value, event_kind="plain", src=None):
        """Reference selection.  guard_value(t) -> bool (True when unguarded).

        Returns ordered list of nominated transitions (dedup), per the property:
        for each active atomic state, walk ancestors-or-self; at the nearest
        state that has an *enabled* candidate take its first enabled candidate.
        """
        noms = []
        seen = set()
        leaves = sorted(self.leaves(ids), key=lambda n: (-n.depth, n.id))
        for leaf in leaves:
            cur = leaf
            while cur is not None:
                cands, blocked = self.candidates(cur, etype, event_kind, src)
                win = None
                for t in cands:
                    if guard_value(t):
                        win = t
                        break
                if win is not None:
                    if win.tid not in seen:
                        seen.add(win.tid)
                        noms.append(win)
                    break
                if blocked:
                    break
                cur = cur.parent
        return noms


def match_descriptors(on_map, etype):
    """Reference event-descriptor matching: which keys of a state's `on` map apply to this event type, in trial order."""
    if not on_map or not etype:
        return []
    out = [etype] if etype in on_map else []
    if etype.startswith(("done.", "error.", "after.", "xstate.")):
        return out
    parts = []
    for k in on_map:
        if k != "*" and k.endswith(".*"):
            pre = k[:-2]
            if etype == pre or etype.startswith(pre + "."):
                parts.append(k)
    parts.sort(key=lambda k: -len(k))
    out.extend(parts)
    if "*" in on_map:
        out.append("*")
    return out


# -- reference guard evaluation (C06) --------------------------------------

class GuardMissing(Exception):
    pass


def eval_guard(gcfg, atom_value, state_in):
    """Evaluate a raw guard config with ordinary boolean meaning.

    atom_value(name, params) -> True/False/'raise'/'missing'
    state_in(target) -> bool
    Raising atoms count as False at the atom.  A missing atom raises
    GuardMissing *only if it is consulted* under left-to-right short-circuit;
    callers that want 'either value' semantics use eval_guard_both.
    """
    if gcfg is None:
        return True
    if isinstance(gcfg, str):
        v = atom_value(gcfg, None)
    else:
        t = gcfg.get("type")
        params = gcfg.get("params")
        kids = gcfg.get("children") or []
        if not kids and isinstance(params, dict):
            kids = params.get("guards") or params.get("children") or []
        if not kids and t in ("and", "or", "not") and isinstance(params, dict) and params.get("guard") is not None:
            kids = [params["guard"]]
        if t in ("and", "or", "not") and kids:
            if t == "and":
                return all(eval_guard(k, atom_value, state_in) for k in kids)
            if t == "or":
                return any(eval_guard(k, atom_value, state_in) for k in kids)
            return not eval_guard(kids[0], atom_value, state_in)
        if t == "stateIn":
            v = atom_value("stateIn", params)
            if v == "builtin":
                tgt = None
                if isinstance(params, dict):
                    tgt = params.get("state", params.get("value"))
                elif isinstance(params, str):
                    tgt = params
                return bool(tgt) and state_in(tgt)
        else:
            v = atom_value(t, params)
    if v == "missing":
        raise GuardMissing(gcfg if isinstance(gcfg, str) else gcfg.get("type"))
    if v == "raise":
        return False
    return bool(v)
