"""Seams: rebind the repo's sources of nondeterminism to simulator-owned objects.

No file under /repo is edited.  Everything here is a module attribute or class
attribute rebound at import time of the harness:

  sync_interpreter.threading -> SimThreadingModule (Thread/Event simulated)
  sync_interpreter.time, helpers.time -> SimTimeModule (virtual clock)
  interpreter.uuid, sync_interpreter.uuid -> per-run counter
  StateNode.__hash__ -> salted stable hash of the state id (see DESIGN 2.5)
"""
from __future__ import annotations

import os
import sys
import zlib

REPO_SRC = os.environ.get("VERIF_REPO_SRC", "/repo/src")
if REPO_SRC not in sys.path:
    sys.path.insert(0, REPO_SRC)

import logging  # noqa: E402

import xstate_statemachine  # noqa: E402
from xstate_statemachine import helpers as _helpers  # noqa: E402
from xstate_statemachine import interpreter as _interp  # noqa: E402
from xstate_statemachine import models as _models  # noqa: E402
from xstate_statemachine import sync_interpreter as _sync  # noqa: E402

from . import simthreads  # noqa: E402

PKG_DIR = os.path.dirname(os.path.abspath(xstate_statemachine.__file__))
assert PKG_DIR.startswith(os.path.abspath(REPO_SRC)), (
    f"xstate_statemachine imported from {PKG_DIR}, expected under {REPO_SRC}")


class _Uuid:
    """Generated identifiers.  Default: a readable per-run counter.  mode "hex": a uuid4-shaped string derived from
    (salt, counter) - different in every execution of a C16 scenario, so that a generated id that influences selection
    or ordering shows as a divergence between executions."""

    def __init__(self):
        self.n = 0
        self.mode = None
        self.salt = 0

    def reset(self, mode=None, salt=0):
        self.n = 0
        self.mode = mode
        self.salt = salt

    def uuid4(self):
        self.n += 1
        if self.mode == "hex":
            import hashlib
            h = hashlib.md5(f"{self.salt}:{self.n}".encode()).hexdigest()
            return f"{h[:8]}-{h[8:12]}-4{h[13:16]}-a{h[17:20]}-{h[20:32]}"
        return f"u{self.n:05d}"


UUID = _Uuid()

_SALT = [0]
_UNPATCHED_HASH = _models.StateNode.__hash__
_HASH_MODE = ["salted"]


def _state_hash(self):
    h = self.__dict__.get("_vh")
    if h is None or h[0] != _SALT[0]:
        v = zlib.crc32(f"{_SALT[0]}:{self.id}".encode())
        # spread a little more so small tables vary with the salt
        v = (v * 2654435761 + _SALT[0] * 40503) % (1 << 61)
        h = (_SALT[0], v)
        self.__dict__["_vh"] = h
    return h[1]


def set_salt(salt):
    _SALT[0] = int(salt)


def set_hash_mode(mode):
    """'salted' (default) or 'address' (unpatched object hash)."""
    if mode == "salted":
        _models.StateNode.__hash__ = _state_hash
    else:
        _models.StateNode.__hash__ = _UNPATCHED_HASH
    _HASH_MODE[0] = mode


import re as _re  # noqa: E402

_ADDR = _re.compile(r"0x[0-9a-fA-F]+")


class LogCapture(logging.Handler):
    """Stores (logger, level, exc class, short message key) only; never draws from a PRNG."""

    def __init__(self):
        super().__init__(level=logging.WARNING)
        self.sink = None

    def emit(self, record):
        sink = self.sink
        if sink is None:
            return
        exc = None
        if record.exc_info and record.exc_info[0] is not None:
            exc = record.exc_info[0].__name__
        try:
            msg = record.getMessage()
        except Exception:
            msg = str(record.msg)
        sink(record.name.rsplit(".", 1)[-1], record.levelname, exc, _ADDR.sub("0x", msg))


LOGCAP = LogCapture()
_installed = [False]


def install():
    if _installed[0]:
        return
    _installed[0] = True
    _sync.threading = simthreads.SimThreadingModule()
    tm = simthreads.SimTimeModule()
    _sync.time = tm
    _helpers.time = tm
    _interp.uuid = UUID
    _sync.uuid = UUID
    set_hash_mode("salted")
    root = logging.getLogger("xstate_statemachine")
    root.handlers[:] = [LOGCAP]
    root.propagate = False
    root.setLevel(logging.WARNING)
    logging.getLogger("asyncio").setLevel(logging.CRITICAL)


install()
